"""C01 - Event dispatch is complete, priority-ordered and serial.

Verified here (DESIGN 4.C01):
* add_handler keeps every handler list sorted by priority (descending, stable), remove_* drop exactly the
  matching handlers and delete an emptied list;
* _run_handlers (bounded to 3 registered handlers, everything symbolic): each handler of the SNAPSHOT whose
  condition holds is called exactly once, in list order, with handler kwargs overriding posted ones; boolean
  events stop at the first False, relay events pass updated kwargs on;
* _post never runs a handler (no nesting), appends to the queue (or takes the no-handler fast path) and
  schedules the drain exactly when the queue was empty;
* _process_event queues the completion callback after the handlers, once.
process_event_queue (depth-first ordering of nested posts) is the separate bounded/ordering check in C01b.
"""
import z3

from pyvc.contract import ContractSet, LoopSpec
from pyvc.vals import *       # noqa
from pyvc import vals as V
from pyvc.interp import MISSING, TraceEv
from pyvc.ctx import Unsupported, SpecError
from . import common
from .common import emit, events_named

EV = "mpf/core/events.py"
KEY = Opaque("UUID")
N = 2


def list_sort(I, v, args, kw):
    """list.sort(key=f, reverse=r) on a concrete-length list: stable insertion sort, branching on the key
    comparisons (Python's sort is stable, also with reverse=True)"""
    c = I.container(v.ref)
    if not isinstance(c, LConc):
        raise Unsupported("sort of an abstract sequence")
    keyfn = kw.get("key")
    rev = kw.get("reverse")
    reverse = bool(rev is not None and z3.is_true(z3.simplify(I.truth(rev))))
    items = list(c.items)
    keys = [I.force(I.call(keyfn, [it], {})) if keyfn is not None else I.force(it) for it in items]
    out, okeys = [], []
    for it, k in zip(items, keys):
        j = len(out)
        while j > 0:
            prev = okeys[j - 1]
            if k.tag == "obj":
                # objects are ordered by their own __gt__ (a < b is evaluated as b > a, as CPython does)
                fc = I.cset.lookup_method(k.ref.cls, "__gt__")
                hi, lo = (k, prev) if reverse else (prev, k)
                before = I.truth(I.call_contract(fc, hi, [lo], {}, None))
            else:
                kk, kt = I.num(k)
                pk, pt = I.num(prev)
                before = (pt < kt) if reverse else (kt < pt)     # strictly: equal keys keep their order
            if I.ctx.branch(before):
                j -= 1
            else:
                break
        out.insert(j, it)
        okeys.insert(j, k)
    I.set_container(v.ref, LConc(out))
    return NONE


def build():
    C = ContractSet("C01", "Event dispatch is complete, priority-ordered and serial")
    C.finite_checks.append(common.native_demo_check(
        'c01_queue_callback_before_transitive_posts.py',
        'the completion callback of a QUEUE event runs only after the events its handlers posted have been dispatched'))
    C.finite_checks.append(common.native_demo_check(
        'c01_queue_event_overtaken.py',
        "a queue event posted by a handler is dispatched before an event that was already waiting (and before the parent's callback)"))
    C.finite_checks.append(common.native_demo_check(
        'c01_event_dropped_at_post_time.py',
        'an event posted before its only handler is registered - but dispatched after - is delivered to that handler'))
    C.namedtuple(EV, "RegisteredHandler")
    C.namedtuple(EV, "PostedEvent")
    C.namedtuple(EV, "EventHandlerKey")
    C.exc("EventHandlerException", "Exception", file=EV)
    C.helpers["list_sort"] = list_sort

    C.cls("Cond", fields=dict(text=Str))       # two handlers may carry conditions with the same text

    def cond_eval(I, env, args, kwargs):
        r = VBool(z3.Bool(I.fresh_name("cond")))
        emit(I, "cond", obj=env["self"], kwargs=args[0] if args else NONE, result=r)
        return r
    C.ext("Cond.evaluate", model=cond_eval, trusted_reason="condition template (C16): some boolean of the merged kwargs")

    def handler_kwargs(I, name):
        if I.ctx.fork(2) == 0:
            return I.new_dict(())
        return I.new_dict((("a", VInt(z3.Int(name + "[a]"))),))
    RH = TupleS(Fn, Int, Init(handler_kwargs), KEY, Opt(ObjS("Cond")), NoneT, ntname="RegisteredHandler",
                fields=("callback", "priority", "kwargs", "key", "condition", "blocking_facility"))

    ENAME = z3.Function("event_name_of", z3.StringSort(), z3.StringSort())

    def registry(n, parsed=False):
        def f(I, name):
            """registered_handlers: the list registered for the event in scope (other events are not touched); for the
            functions that take an event STRING ('name{cond}.prio') the list is filed under the parsed name"""
            env = I.frames[0].env
            evk = env.get("event")
            if evk is None:
                evk = I.force(env["key"]).items[1]
            evk = I.force(evk)
            if parsed:
                evk = VStr(ENAME(evk.t))
            lst = I.fresh(ListOf(RH, n), name + "[ev]")
            return I.new_dict(((evk, lst),))
        return f

    def posted_kwargs(I, name):
        if I.ctx.fork(2) == 1:
            return I.new_dict(())          # an event posted without arguments
        return I.new_dict((("a", VInt(z3.Int(name + "[a]"))), ("b", VInt(z3.Int(name + "[b]")))))

    MACHINE = ObjS("MachineController", options=Rec(production=Bool),
                   clock=ObjS("ClockBase", loop=ObjS("Loop")),
                   bcp=ObjS("Bcp", interface=ObjS("BcpInterface")))
    C.cls("Loop", fields={})
    C.ext("Loop.call_soon", model=lambda I, env, a, k: (emit(I, "call_soon", fn=a[0]), NONE)[1],
          trusted_reason="asyncio loop (A-ASYNCIO): callbacks run later, in FIFO order, never inside the caller")
    C.cls("BcpInterface", fields={})
    C.ext("BcpInterface.monitor_posted_event", model=common.noop, trusted_reason="BCP monitoring notification")
    C.cls("MpfController", fields={})
    C.cls("EventManager", file=EV, bases=["MpfController"], fields=dict(
        machine=MACHINE, _stopped=Bool, _debug=Bool, _info=Bool, monitor_events=Bool,
        event_queue=Seq(Opaque("PostedEv")), callback_queue=Seq(Opaque("CbEntry")),
        registered_handlers=Init(registry(N))))

    # ------------------------------------------------------------------ rely + result of a handler call
    def on_opaque_call(I, fn, args, kwargs):
        """a handler may post events and add/remove handlers (public API) - none of which the running dispatch
        looks at (it iterates a snapshot); its return value is arbitrary: None, a bool, or (relay) a dict"""
        fc0 = I.frames[0].fc
        if fc0 is None or not fc0.key.startswith("EventManager._run_handlers"):
            return None
        k = I.ctx.fork(3)
        if k == 0:
            return NONE
        if k == 1:
            return VBool(z3.Bool(I.fresh_name("hret")))
        return I.new_dict((("a", VInt(z3.Int(I.fresh_name("relay_a")))), ("c", VInt(z3.Int(I.fresh_name("relay_c"))))))
    C.helpers["on_opaque_call"] = on_opaque_call

    # ------------------------------------------------------------------ _run_handlers
    def dispatch_ok(I):
        """reference dispatch over the snapshot of the handler list taken at entry"""
        env = I.frames[0].env
        this = env["self"].ref
        evk = I.force(env["event"])
        etype = I.force(env["ev_type"]) if not isinstance(env["ev_type"], VUnion) else env["ev_type"]
        reg = I.old_heap.data[(I.force(I.read_field(this, "registered_handlers", heap=I.old_heap)).ref, "$")]
        lst = reg.get(evk)
        handlers = [I.force(h) for h in I.old_heap.data[(I.force(lst).ref, "$")].items]
        posted0 = dict(I.old_heap.data[(I.force(env["kwargs"]).ref, "$")].entries)
        is_bool = I.eq(env["ev_type"], VStr("boolean"))
        is_relay = I.eq(env["ev_type"], VStr("relay"))
        E = [e for e in I.cur_trace() if e.name in ("callback", "cond")]
        p = 0
        cs = []
        cur = dict(posted0)
        stopped = z3.BoolVal(False)
        for h in handlers:
            cbt = I.force(h.items[0]).t
            hk = dict(I.old_heap.data[(I.force(h.items[2]).ref, "$")].entries)
            condv = I.force(h.items[4]) if not isinstance(h.items[4], VUnion) else h.items[4]
            # expected merged kwargs: handler-registered arguments override posted ones
            merged = dict(cur)
            merged.update(hk)
            # was the condition evaluated / the handler called on this path?
            cond_res = z3.BoolVal(True)
            consumed_cond = False
            has_cond = I.is_none(h.items[4])
            if p < len(E) and E[p].name == "cond":
                co = I.force(E[p].args["obj"]).ref
                mine = any(a.tag == "obj" and a.ref is co for _, a in
                           (h.items[4].alts if isinstance(h.items[4], VUnion) else ((None, h.items[4]),)))
                if mine:
                    cs.append(z3.Not(has_cond))
                    cs.append(z3.Not(stopped))
                    cond_res = I.force(E[p].args["result"]).t
                    consumed_cond = True
                    p += 1
                    if z3.is_false(z3.simplify(cond_res)) or not (p < len(E) and E[p].name == "callback" and
                                                                  I.force(E[p].args["fn"]).t.eq(cbt)):
                        cs.append(z3.Not(cond_res))
                        continue
            called = p < len(E) and E[p].name == "callback" and I.force(E[p].args["fn"]).t.eq(cbt)
            if called:
                ev = E[p]
                p += 1
                cs.append(z3.Not(stopped))
                cs.append(cond_res)
                if not consumed_cond:
                    cs.append(has_cond)      # called without evaluating a condition: it must not have one
                got = ev.args["kwargs"]
                cs.append(z3.BoolVal(sorted(got.keys()) == sorted(merged.keys())))
                for kname in merged:
                    if kname in got:
                        cs.append(I.eq(got[kname], merged[kname]))
                r = ev.ret
                if r is not None:
                    rf = I.force(r)
                    if rf.tag == "bool":
                        stopped = z3.Or(stopped, z3.And(is_bool, z3.Not(rf.t)))
                    if rf.tag == "dict":
                        # relay: later handlers see the updated arguments
                        upd = dict(I.container(rf.ref).entries)
                        relay_known = None      # the path has decided ev_type == 'relay' when it got here
                        if not I.ctx._feasible(z3.Not(is_relay)):
                            relay_known = True
                        elif not I.ctx._feasible(is_relay):
                            relay_known = False
                        for kname, val in upd.items():
                            if kname in cur:
                                cur[kname] = I.merge(is_relay, val, cur[kname])
                            elif relay_known:
                                cur[kname] = val          # a relay result may introduce new arguments
                            elif relay_known is None:
                                raise SpecError("relay result with a new key while the event type is undecided")
            else:
                # not called: only allowed because dispatch stopped (boolean False earlier) or it has a
                # condition that was evaluated to False (handled above)
                cs.append(stopped)
        cs.append(z3.BoolVal(p == len(E)))
        return VBool(z3.And(cs))
    C.helpers["dispatch_ok"] = dispatch_ok
    C.trace_helpers = {"dispatch_ok", "n_callbacks", "n_call_soon", "queued_callback"}
    C.helpers["n_callbacks"] = lambda I: VInt(len(events_named(I, "callback")))
    C.helpers["n_call_soon"] = lambda I: VInt(len(events_named(I, "call_soon")))

    C.fn("EventManager._run_handlers",
         params=dict(event=Str, ev_type=Union(NoneT, Const("boolean"), Const("relay"), Const("queue")),
                     kwargs=Init(posted_kwargs)),
         result=Union(NoneT, Bool, MapS(Str, Int)),
         ensures=[("every handler registered when dispatch begins (and whose condition holds) is called exactly "
                   "once, in list (priority) order, with handler kwargs overriding posted ones; a boolean event "
                   "stops at the first False; a relay event hands on the updated arguments", "dispatch_ok()")],
         modifies=["kwargs.*"], raises={"EventHandlerException": True},
         bounded="%d registered handlers for the event; callbacks, priorities, kwargs, conditions and results symbolic"
                 % N,
         call_ensures=[], call_modifies=["kwargs.*"], emits=lambda I, env, res: emit(I, "run_handlers", event=env["event"]))

    # ------------------------------------------------------------------ add / remove
    def sorted_desc(I, event):
        """the handler list of the event is sorted by priority, highest first"""
        this = I.frames[0].env["self"].ref
        reg = I.container(I.force(I.read_field(this, "registered_handlers")).ref)
        lst = reg.get(I.force(event))
        if lst is None:
            return VBool(True)
        items = [I.force(h) for h in I.container(I.force(lst).ref).items]
        cs = [I.force(a.items[1]).t >= I.force(b.items[1]).t for a, b in zip(items, items[1:])]
        return VBool(z3.And(cs + [z3.BoolVal(True)]))
    C.helpers["sorted_desc"] = sorted_desc

    def handlers_of(I, heap, event):
        this = I.frames[0].env["self"].ref
        reg = heap.data[(I.force(I.read_field(this, "registered_handlers", heap=heap)).ref, "$")]
        lst = reg.get(I.force(event))
        if lst is None and isinstance(I.pyconst(I.force(event)), str):
            lst = reg.get(I.pyconst(I.force(event)))         # a registry keyed by a literal name
        if lst is None:
            return None
        return [I.force(h) for h in heap.data[(I.force(lst).ref, "$")].items]

    def added_one(I, event, handler, prio):
        """the new list is the old one plus exactly one entry (callback = handler, priority = prio), the old
        entries keep their relative order, and equal priorities keep registration order (new one last)"""
        old, new = handlers_of(I, I.old_heap, event), handlers_of(I, I.heap, event)
        if old is None or new is None or len(new) != len(old) + 1:
            return VBool(False)
        hf = I.force(handler)
        cases = []
        for pos in range(len(new)):
            rest = new[:pos] + new[pos + 1:]
            same = z3.And([I.eq(a, b) for a, b in zip(rest, old)] + [z3.BoolVal(True)])
            me = new[pos]
            is_me = z3.And(I.eq(me.items[0], hf), I.eq(me.items[1], prio))
            stable = z3.And([I.force(o.items[1]).t >= I.force(prio).t for o in old[:pos]] +
                            [I.force(o.items[1]).t < I.force(prio).t for o in old[pos:]] + [z3.BoolVal(True)])
            cases.append(z3.And(same, is_me, stable))
        return VBool(z3.Or(cases))
    C.helpers["added_one"] = added_one

    C.cls("HandlerObj", fields={})

    def gec(I, env, args, kwargs):
        """get_event_and_condition_from_string: (event name, condition, additional priority); cached, pure"""
        s = I.force(args[0])
        return VTuple([VStr(ENAME(s.t)), I.fresh(Opt(ObjS("Cond")), I.fresh_name("cond")),
                       VInt(z3.Int("additional_priority"))])
    C.helpers["ename"] = lambda I, s: VStr(ENAME(I.force(s).t))
    C.ext("EventManager.get_event_and_condition_from_string", model=gec,
          trusted_reason="parses 'event{condition}.priority' (lru_cached, pure): (event_name_of(string), condition, "
                         "additional priority) - verified in the parse set")
    C.ext("EventManager._verify_handlers", model=common.noop, trusted_reason="diagnostics only")
    C.ext("EventManager._pretty_log_removed_handler", model=common.noop, trusted_reason="debug logging only")
    C.globals["uuid"] = VFn("module", name="uuid")
    C.globals["uuid.uuid4"] = VFn("model", model=lambda I, a, k: VOpaque("UUID", z3.Const(I.fresh_name("uuid"),
                                                                                         usort("UUID"))))
    C.globals["MagicMock"] = VCls("MagicMock")
    # a handler decorated with @event_handler(relative_priority) carries that attribute; whether it does is symbolic
    C.opaque_attrs[("Fn", "relative_priority")] = "int"
    HAS_REL = z3.Function("has_relative_priority", usort("Fn"), z3.BoolSort())

    def has_attr(I, a, k):
        o = I.force(a[0])
        if o.tag == "opaque" and o.sort == "Fn" and I.pyconst(I.force(a[1])) == "relative_priority":
            return VBool(HAS_REL(o.t))
        return VBool(False)
    C.globals["hasattr"] = VFn("model", model=has_attr)

    def rel(I, handler):
        h = I.force(handler)
        return VInt(z3.If(HAS_REL(h.t), z3.Function("attr_relative_priority", usort("Fn"), z3.IntSort())(h.t), 0))
    C.helpers["rel"] = rel
    C.fn("EventManager.add_handler",
         params=dict(self=ObjS("EventManager", registered_handlers=Init(registry(2, parsed=True))),
                     event=Str, handler=Fn, priority=Int, blocking_facility=Const(None),
                     kwargs=Init(lambda I, name: I.new_dict(()))),
         requires=[("production mode (the signature-inspection prologue is abstracted: it can only raise)",
                    "self.machine.options['production']"),
                   ("I1 holds before", "sorted_desc(ename(event))"),
                   ],
         result=TupleS(KEY, Str, ntname="EventHandlerKey", fields=("key", "event")),
         ensures=[("I1: the handler list stays sorted by descending priority", "sorted_desc(ename(event))"),
                  ("exactly the new handler is added - to the list of the PARSED event name - with priority + additional "
                   "priority (+ the relative priority of a decorated handler), after existing handlers of equal priority",
                   "added_one(ename(event), handler, priority + ap() + rel(handler))"),
                  ("the returned key names the parsed event - the name the handler is filed under, so that "
                   "remove_handler_by_key(key) finds it again (a key carrying 'name{cond}' or 'name.5' would never be "
                   "removed)", "result.event == ename(event)")],
         modifies=["self.registered_handlers.**"], raises={"AssertionError": True}, inline_calls=True,
         bounded="2 handlers already registered for the event")
    C.helpers["ap"] = lambda I: VInt(z3.Int("additional_priority"))

    def removed_matching(I, event, which, val):
        """the new list is the old one without the entries whose callback/key matches; if nothing is left the
        event is dropped from the registry"""
        old, new = handlers_of(I, I.old_heap, event), handlers_of(I, I.heap, event)
        if old is None:
            return VBool(new is None)
        idx = 0 if which == "callback" else 3
        vf = I.force(val)
        keep = [z3.Not(I.eq(o.items[idx], vf)) for o in old]
        # new == filter(keep, old): enumerate subsets (bounded list)
        cases = []
        n = len(old)
        for mask in range(1 << n):
            sel = [bool(mask >> i & 1) for i in range(n)]
            cond = z3.And([k if s else z3.Not(k) for k, s in zip(keep, sel)] + [z3.BoolVal(True)])
            kept = [o for o, s in zip(old, sel) if s]
            if not kept:
                shape = z3.BoolVal(new is None)
            elif new is None or len(new) != len(kept):
                shape = z3.BoolVal(False)
            else:
                shape = z3.And([I.eq(a, b) for a, b in zip(new, kept)])
            cases.append(z3.And(cond, shape))
        return VBool(z3.Or(cases))
    C.helpers["removed_by_key"] = lambda I, key: removed_matching(I, I.force(key).items[1], "key", I.force(key).items[0])
    C.helpers["removed_by_callback"] = lambda I, event, handler: removed_matching(I, event, "callback", handler)
    RSELF = ObjS("EventManager", registered_handlers=Init(registry(2)))
    C.fn("EventManager._remove_event_if_empty", params=dict(self=RSELF, event=Str), inline=True)
    C.fn("EventManager.remove_handler_by_key",
         params=dict(self=RSELF, key=TupleS(KEY, Str, ntname="EventHandlerKey", fields=("key", "event"))),
         ensures=[("exactly the handler with that key is removed; an emptied list is deleted (I2)",
                   "removed_by_key(key)")],
         modifies=["self.registered_handlers.**", "self.registered_handlers"], raises={},
         bounded="2 handlers registered for the event")
    C.fn("EventManager.remove_handler_by_event", params=dict(self=RSELF, event=Str, handler=Fn),
         ensures=[("every handler of that event with that callback is removed; an emptied list is deleted",
                   "removed_by_callback(event, handler)")],
         modifies=["self.registered_handlers.**", "self.registered_handlers"], raises={}, inline_calls=True,
         bounded="2 handlers registered for the event")

    def registry_fixed(n):
        def f(I, name):
            return I.new_dict((("ev", I.fresh(ListOf(RH, n), name + "[ev]")),))
        return f
    C.fn("EventManager.remove_handler",
         params=dict(self=ObjS("EventManager", registered_handlers=Init(registry_fixed(3))), method=Fn),
         ensures=[("RH1: EVERY registration of the method is removed (it may be registered more than once for one event, "
                   "e.g. with different conditions or kwargs); the other handlers keep their order; an emptied list is "
                   "deleted", "removed_by_callback('ev', method)")],
         modifies=["self.registered_handlers.**", "self.registered_handlers"], raises={},
         bounded="one event with 3 registered handlers")

    def replaced(I, event, handler, prio, kwargs):
        """the new list is the old one WITHOUT the registrations of this callable (when kwargs are given: only those
        registered with equal kwargs) - every other registration is kept, in order - plus exactly one new entry
        (callback, priority, kwargs) placed after the kept entries of equal or higher priority"""
        old, new = handlers_of(I, I.old_heap, event), handlers_of(I, I.heap, event)
        old = old or []
        if new is None:
            return VBool(False)
        hf, kw = I.force(handler), I.force(kwargs)
        kw_given = len(I.container(kw.ref).entries) > 0
        match = [z3.And(I.eq(o.items[0], hf), I.eq(o.items[2], kw) if kw_given else z3.BoolVal(True)) for o in old]
        cases = []
        n = len(old)
        for mask in range(1 << n):
            sel = [bool(mask >> i & 1) for i in range(n)]           # True = kept
            cond = z3.And([z3.Not(m) if k else m for m, k in zip(match, sel)] + [z3.BoolVal(True)])
            kept = [o for o, k in zip(old, sel) if k]
            if len(new) != len(kept) + 1:
                cases.append(z3.And(cond, z3.BoolVal(False)))
                continue
            pos_cases = []
            for pos in range(len(new)):
                rest = new[:pos] + new[pos + 1:]
                same = z3.And([I.eq(a, b) for a, b in zip(rest, kept)] + [z3.BoolVal(True)])
                me = new[pos]
                is_me = z3.And(I.eq(me.items[0], hf), I.eq(me.items[1], prio), I.eq(me.items[2], kw))
                stable = z3.And([I.force(o.items[1]).t >= I.force(prio).t for o in kept[:pos]] +
                                [I.force(o.items[1]).t < I.force(prio).t for o in kept[pos:]] + [z3.BoolVal(True)])
                pos_cases.append(z3.And(same, is_me, stable))
            cases.append(z3.And(cond, z3.Or(pos_cases)))
        return VBool(z3.Or(cases))
    C.helpers["replaced"] = replaced
    C.fn("EventManager.replace_handler",
         params=dict(self=ObjS("EventManager", registered_handlers=Init(registry(2))), event=Str, handler=Fn, priority=Int,
                     kwargs=Init(handler_kwargs)),
         requires=[("production mode", "self.machine.options['production']"), ("I1 holds before", "sorted_desc(event)"),
                   ("a plain event name: replace_handler looks the old registration up under the string as given",
                    "ename(event) == event")],
         result=TupleS(KEY, Str, ntname="EventHandlerKey", fields=("key", "event")),
         ensures=[("RP1: only the registrations of this callable - and, when kwargs are given, only those registered with "
                   "EQUAL kwargs - are replaced; every other registration of the event (the same callable with other "
                   "kwargs included) keeps its place and is still delivered to",
                   "replaced(event, handler, priority + ap() + rel(handler), kwargs)"),
                  ("I1: the handler list stays sorted by descending priority", "sorted_desc(event)")],
         modifies=["self.registered_handlers.**", "self.registered_handlers"], raises={"AssertionError": True},
         bounded="2 handlers already registered for the event")

    # ------------------------------------------------------------------ _post, _process_event
    PE = Opaque("PostedEv")

    def posted_event(I, args, kwargs):
        t = z3.Function("mk_posted", z3.StringSort(), usort("PostedEv"))
        return VOpaque("PostedEv", t(I.force(args[0]).t))
    C.globals["PostedEvent"] = VFn("model", model=posted_event)

    def queue_appended(I):
        this = I.frames[0].env["self"].ref
        q1 = I.container(I.force(I.read_field(this, "event_queue")).ref).term
        q0 = I.old_heap.data[(I.force(I.read_field(this, "event_queue", heap=I.old_heap)).ref, "$")].term
        ev = I.force(I.frames[0].env["event"]).t
        t = z3.Function("mk_posted", z3.StringSort(), usort("PostedEv"))
        return VBool(q1 == z3.Concat(q0, z3.Unit(t(ev))))

    def queue_same(I):
        this = I.frames[0].env["self"].ref
        q1 = I.container(I.force(I.read_field(this, "event_queue")).ref).term
        q0 = I.old_heap.data[(I.force(I.read_field(this, "event_queue", heap=I.old_heap)).ref, "$")].term
        return VBool(q1 == q0)
    C.helpers["queue_appended"] = queue_appended
    C.helpers["queue_same"] = queue_same
    PSELF = ObjS("EventManager", registered_handlers=MapS(Str, Opaque("HandlerList")))
    C.fn("EventManager._post",
         params=dict(self=PSELF, event=Str, ev_type=Opt(Str), callback=Opt(Fn),
                     kwargs=Init(lambda I, name: I.new_dict((("a", VInt(z3.Int(name + "[a]"))),)))),
         lets={"fast": "not self._stopped and callback is None and not self.monitor_events and "
                       "event not in self.registered_handlers"},
         ensures=[("posting never runs a handler (handlers of different events never nest)", "n_callbacks() == 0"),
                  ("after stop, or with nobody listening and no callback, nothing is queued",
                   "implies(self._stopped or fast, queue_same() and n_call_soon() == 0)"),
                  ("otherwise the event is appended at the END of the queue (events already waiting stay ahead)",
                   "implies(not self._stopped and not fast, queue_appended())"),
                  ("the drain is scheduled exactly when the queue was empty",
                   "implies(not self._stopped and not fast, n_call_soon() == (1 if len(old(self.event_queue)) == 0 else 0))")],
         modifies=["self.event_queue"], raises={})

    def queued_callback(I):
        """the completion callback was appended to the callback queue exactly once"""
        this = I.frames[0].env["self"].ref
        q1 = I.container(I.force(I.read_field(this, "callback_queue")).ref).term
        q0 = I.old_heap.data[(I.force(I.read_field(this, "callback_queue", heap=I.old_heap)).ref, "$")].term
        return VBool(z3.Length(q1) == z3.Length(q0) + 1)

    def queue_cb_same(I):
        this = I.frames[0].env["self"].ref
        q1 = I.container(I.force(I.read_field(this, "callback_queue")).ref).term
        q0 = I.old_heap.data[(I.force(I.read_field(this, "callback_queue", heap=I.old_heap)).ref, "$")].term
        return VBool(q1 == q0)
    C.helpers["queued_callback"] = queued_callback
    C.helpers["queue_cb_same"] = queue_cb_same
    C.helpers["ran_handlers"] = lambda I: VInt(len(events_named(I, "run_handlers")))
    C.trace_helpers |= {"ran_handlers"}

    def cb_entry(I, tup):
        return VOpaque("CbEntry", z3.Const(I.fresh_name("cbentry"), usort("CbEntry")))
    C.fn("EventManager._process_event",
         params=dict(self=PSELF, event=Str, ev_type=Opt(Str), callback=Opt(Fn),
                     kwargs=Init(lambda I, name: I.new_dict((("a", VInt(z3.Int(name + "[a]"))),)))),
         ensures=[("handlers are dispatched once iff the event has handlers",
                   "ran_handlers() == (1 if event in old(self.registered_handlers) else 0)"),
                  ("the completion callback is queued exactly once, after the handlers, iff there is one",
                   "(queued_callback() if callback is not None else queue_cb_same())")],
         modifies=["self.callback_queue", "kwargs.*"], raises={"EventHandlerException": True})

    C.assume("A-SORT is not assumed: list.sort is executed as a stable insertion sort on the bounded lists")
    C.assume("A-RELY: handlers may post events and add/remove handlers; a running dispatch iterates a snapshot")
    C.assume("the signature-inspection prologue of add_handler (inspect.signature, switch-name check) is "
             "abstracted by requiring production mode; handler.relative_priority is modelled as absent")
    return C


# ======================================================================================================
# process_event_queue: depth-first ordering of nested posts and completion callbacks (bounded scenario)
# ======================================================================================================
BUDGET = 5      # at most this many events in a scenario (2 initial + posted ones), fan-out <= 2 per dispatch


def parse_set(pid="C01p"):
    """'name.N' registers for event 'name' with additional priority N (any integer int() accepts - negative ones too:
    'after the default handlers'); 'name{cond}' / 'name.N{cond}' carry a condition.  The parser is the ONLY place where
    the priority suffix is given its meaning; add_handler (main set) assumes exactly this result shape."""
    from pyvc import regex
    C = ContractSet(pid, "event string parsing: name, condition, additional priority")
    C.replay_pid = "C01"
    C.strings = True
    regex.install(C)
    C.cls("MpfController", fields={})
    C.cls("Cond", fields=dict(text=Str))

    def build_bool(I, env, args, kwargs):
        o = I.fresh(ObjS("Cond"), I.fresh_name("cond"))
        I.ctx.assume(I.eq(I.read_field(I.force(o).ref, "text"), args[0]))
        return o
    C.cls("PlaceholderManager", fields={})
    C.ext("PlaceholderManager.build_bool_template", model=build_bool,
          trusted_reason="template construction (C16): a condition object for that text")
    C.cls("EventManager", file=EV, bases=["MpfController"],
          fields=dict(machine=ObjS("MachineController", placeholder_manager=ObjS("PlaceholderManager"))), check_bases=False)
    INT_RE = regex.to_z3(r"[ \t\n]*[+-]?[0-9]+(_[0-9]+)*[ \t\n]*")
    OK = z3.Function("py_int_ok", z3.StringSort(), z3.BoolSort())
    VAL = z3.Function("py_int", z3.StringSort(), z3.IntSort())
    def _inst(I, t):
        # instance of: int() accepts exactly optional blanks, a sign, digits (single underscores between them) (A-ASCII)
        I.ctx.assume(OK(t) == z3.InRe(t, INT_RE))
    C.helpers["int_ok"] = lambda I, s: (_inst(I, I.force(s).t), VBool(OK(I.force(s).t)))[1]
    C.helpers["int_of"] = lambda I, s: (_inst(I, I.force(s).t), VInt(VAL(I.force(s).t)))[1]
    PLAIN = "(not ' ' in %s and not '{' in %s)"
    C.fn("EventManager.get_event_and_condition_from_string", params=dict(event_string=Str),
         defs=[],
         lets={"p": "event_string.find('.')", "b": "event_string.find('{')", "head": "event_string[0:event_string.find('{')]",
               "q": "event_string[0:event_string.find('{')].find('.')"},
         result=TupleS(Str, Opt(ObjS("Cond")), Int),
         ensures=[("G1: a plain 'name.N' string is event 'name' (the text before the FIRST dot) with additional priority "
                   "int(N) - every integer int() accepts, negative ones included; without a dot (or with a leading one) the "
                   "string is the event name and the additional priority is 0; no condition",
                   "implies(event_string[-1:] != '}', result[1] is None and "
                   "(result[0] == event_string[:p] and result[2] == int_of(event_string[p + 1:]) if p > 0 else "
                   "result[0] == event_string and result[2] == 0))"),
                  ("G2: 'name{cond}' / 'name.N{cond}': the condition is the text between the FIRST '{' and the final '}', and "
                   "the part before it is parsed like a plain string",
                   "implies(event_string[-1:] == '}', result[1] is not None and result[1].text == event_string[b + 1:-1] and "
                   "(result[0] == head[:q] and result[2] == int_of(head[q + 1:]) if q > 0 else "
                   "result[0] == head and result[2] == 0))")],
         raises={"ValueError": True},
         ensures_exc=[("only malformed strings are rejected: a space or a stray '{' in the name, a '}' without '{', or a "
                       "priority suffix that int() does not accept",
                       "(event_string[-1:] == '}' and (b < 0 or ' ' in head or "
                       "(q > 0 and not int_ok(head[q + 1:])))) or "
                       "(event_string[-1:] != '}' and (' ' in event_string or '{' in event_string or "
                       "(p > 0 and not int_ok(event_string[p + 1:]))))")],
         modifies=[], allow_decorators=["lru_cache"],
         replay_seeds={"event_string": ["a.-1", "ball_started.2", "ev{x>1}", "ev.3{x}", "a b", "a.x", "ev"]})
    C.assume("A-INT: int(s) of a non-literal string is an uninterpreted pair (accepts?, value); the parser is required to "
             "pass exactly the suffix to it")
    return C


def build_extra():
    C = ContractSet("C01b", "process_event_queue ordering (bounded posting trees)")
    C.namedtuple(EV, "PostedEvent")

    def deque_model(I, args, kwargs):
        if args:
            return I.new_list(list(I.iter_conc(args[0])), "deque")
        return I.new_list([], "deque")
    C.globals["deque"] = VFn("model", model=deque_model)
    C.cls("MpfController", fields={})

    def initial_queue(I, name):
        """two events are waiting: 'A' (with a completion callback) and 'B' (with a completion callback)"""
        evs = []
        for nm in ("A", "B"):
            evs.append(VTuple([VStr(nm), NONE, VOpaque("Fn", z3.Const("cb_" + nm, usort("Fn"))), I.new_dict(())],
                              ntname="PostedEvent", fields=("event", "type", "callback", "kwargs")))
        return I.new_list(evs, "event_queue")
    C.cls("EventManager", file=EV, bases=["MpfController"], fields=dict(
        event_queue=Init(initial_queue), callback_queue=Init(lambda I, name: I.new_list([], "callback_queue"))),
          check_bases=False)

    def n_events(I):
        return 2 + sum(len(e.args["children"]) for e in I.trace if e.name == "dispatch")

    def process_event(I, env, args, kwargs):
        """dispatching an event runs its handlers, which may post up to two further events (appended to
        event_queue, as _post does); then its completion callback (if any) is queued"""
        this = env["self"].ref
        name = kwargs["event"]
        room = BUDGET - n_events(I)
        k = I.ctx.fork(min(3, room + 1)) if room > 0 else 0
        q = I.force(I.read_field(this, "event_queue"))
        children = []
        pname = I.pyconst(I.force(name))
        for j in range(k):
            cn = "%s%d" % (pname, j + 1)
            children.append(cn)
            pe = VTuple([VStr(cn), NONE, NONE, I.new_dict(())], ntname="PostedEvent",
                        fields=("event", "type", "callback", "kwargs"))
            qq = I.force(I.read_field(this, "event_queue"))
            c = I.container(qq.ref)
            I.set_container(qq.ref, LConc(c.items + (pe,)))
        emit(I, "dispatch", event=pname, children=children)
        cb = I.force(kwargs.get("callback", NONE))
        if cb.tag != "none":
            cq = I.force(I.read_field(this, "callback_queue"))
            c = I.container(cq.ref)
            I.set_container(cq.ref, LConc(c.items + (VTuple([cb, I.new_dict(())]),)))
        return NONE
    R = "dispatch of one event: handlers may post further events (appended to the queue), then the completion " \
        "callback is queued (both verified separately: _post, _process_event, _run_handlers)"
    C.ext("EventManager._process_event", model=process_event, trusted_reason=R)
    C.ext("EventManager._process_queue_event", model=process_event, trusted_reason=R)

    def on_opaque_call(I, fn, args, kwargs):
        return NONE
    C.helpers["on_opaque_call"] = on_opaque_call

    def order_ok(I):
        """dispatch order is depth-first: an event, then everything posted while it was handled (recursively, in
        posting order), before any event that was already waiting; each completion callback runs exactly once,
        after its event and everything that event transitively posted, and only when no event is waiting"""
        tr = [e for e in I.cur_trace() if e.name in ("dispatch", "callback")]
        children = {e.args["event"]: list(e.args["children"]) for e in tr if e.name == "dispatch"}
        got = [e.args["event"] for e in tr if e.name == "dispatch"]

        def dfs(n):
            out = [n]
            for c in children.get(n, []):
                out.extend(dfs(c))
            return out
        want = dfs("A") + dfs("B")
        if got != want:
            return VBool(False)
        # callbacks
        pos = {n: i for i, n in enumerate([("d", e.args["event"]) if e.name == "dispatch" else
                                            ("c", str(I.force(e.args["fn"]).t)) for e in tr])}
        seq = [("d", e.args["event"]) if e.name == "dispatch" else ("c", str(I.force(e.args["fn"]).t)) for e in tr]
        for root in ("A", "B"):
            cbs = [i for i, x in enumerate(seq) if x == ("c", "cb_" + root)]
            if len(cbs) != 1:
                return VBool(False)
            last_desc = max(i for i, x in enumerate(seq) if x[0] == "d" and x[1] in dfs(root))
            if cbs[0] < last_desc:
                return VBool(False)
            # nothing is dispatched after a callback started unless ... (callbacks here post nothing)
        return VBool(True)
    C.helpers["order_ok"] = order_ok
    C.trace_helpers = {"order_ok"}

    def queues_empty(I):
        this = I.frames[0].env["self"].ref
        q = I.container(I.force(I.read_field(this, "event_queue")).ref)
        cq = I.container(I.force(I.read_field(this, "callback_queue")).ref)
        return VBool(len(q.items) == 0 and len(cq.items) == 0)
    C.helpers["queues_empty"] = queues_empty
    C.fn("EventManager.process_event_queue",
         ensures=[("events posted while an event is handled are dispatched right after it and before anything that "
                   "was already waiting; completion callbacks run once, after the transitive closure", "order_ok()"),
                  ("nothing is lost: both queues are empty at the end", "queues_empty()")],
         modifies=["self.event_queue", "self.callback_queue"], raises={},
         bounded="posting trees with at most %d events in total (2 initially waiting, each dispatch posts 0-2 more); "
                 "completion callbacks on the two initial events; callbacks themselves post nothing" % BUDGET)
    C.assume("process_event_queue is explored on every posting tree up to the stated bound by symbolic execution of "
             "the real loop (deques as concrete lists)")
    # re-entrancy: the only callers that drain the queue synchronously are loop callbacks; DelayManager.run_now may
    # be called from inside a handler and therefore must NOT drain (C13's contract set, restricted)
    from . import C13
    c13 = C13.build()
    c13.pid = "C01c"
    c13.only_verify = ["DelayManager.run_now", "DelayManager._process_delay_callback", "DelayManager.add"]
    # queue events are dispatched by _run_handlers_sequential: order, kwargs precedence and the single completion
    # callback are the same rules as for _run_handlers (C02's contract set, restricted)
    from . import C02
    c02 = C02.build()
    c02.pid = "C01d"
    c02.only_verify = ["EventManager._run_handlers_sequential"]
    # the switch controller is reached from inside event handlers (switch players, BCP, keyboard): recording a hold-time
    # deadline must never call handlers or drain the queue synchronously (C03's contract set, restricted)
    from . import C03
    return [C, c13, c02, C03.timed_add_set("C01t"), parse_set()]
