"""Assumed (external) contracts shared by several properties: the delay
manager as seen by its clients, the BCP notification interface, event
posting as a trace effect.  These are *trusted* models of dependencies; the
delay manager itself is verified under C13, the event manager under C01."""
import z3

from pyvc.vals import *      # noqa
from pyvc.interp import TraceEv, MISSING
from pyvc.ctx import Unsupported


def bound(quick, thorough):
    """size bound of a BOUNDED check: the thorough tier explores larger collections"""
    import os
    return thorough if os.environ.get("PYVC_TIER") == "thorough" else quick


def emit(I, _evname, **args):
    ev = TraceEv(_evname, args)
    I.trace.append(ev)
    return ev


def events_named(I, name):
    """events of the current scope: the whole path for the function under proof, only the callee's emitted
    events while a callee's postcondition is evaluated at a call site"""
    return [e for e in I.cur_trace() if e.name == name]


# ---------------------------------------------------------------- DelayManager (client view)
# Ghost per manager: 'pending' = overlay dict literal-name -> (ms, callback) | TOMB for names touched on this
# path; a name not touched on the path is pending iff the symbolic initial flag <dm>.pending0[<name>] holds.
TOMB = VTuple((), ntname="TOMB")


def _pending(I, dm):
    v = I.read_field(dm, "pending")
    if v is MISSING:
        raise Unsupported("delay manager %s has no 'pending' ghost" % dm.name)
    return I.force(v)


def _name_key(I, name):
    k = I.pyconst(I.force(name))
    if k is MISSING:
        raise Unsupported("delay with a symbolic name (client-view model handles literal names)")
    return k


def delay_present(I, dm, key):
    """z3 Bool: a delay named key is pending on manager dm"""
    p = _pending(I, dm)
    cur = I.container(p.ref).get(key)
    if cur is None:
        if I.heap.data.get((dm, "all_cleared")):
            return z3.BoolVal(False)
        ep = I.heap.data.get((dm, "epoch"), 0)
        return z3.Bool("%s.pending0%s[%s]" % (dm.name, "@%d" % ep if ep else "", key))
    return z3.BoolVal(cur is not TOMB)


def delay_entry(I, dm, key):
    p = _pending(I, dm)
    cur = I.container(p.ref).get(key)
    return None if cur is None or cur is TOMB else cur


def _check_deferred_requires(I, callback, kwargs, what):
    """a callback under contract that is stored for a deferred call: its precondition must hold for the stored
    arguments (checked at registration; sound because the clauses used only read immutable config)"""
    cb = I.force(callback)
    if cb.tag == "fn" and cb.kind == "bound" and cb.fc is not None and cb.fc.requires:
        fc = cb.fc
        from pyvc.interp import Frame, _ctext
        env = I.bind(fc, VObj(cb.obj), [], dict(kwargs))
        I.frames.append(Frame(fc, env))
        try:
            for label, clause in fc.requires:
                f = I.spec_bool(clause)
                I.ctx.prove("%s:%s@deferred:%s" % (I.frames[0].fc.key, label, fc.key), _ctext(clause), f,
                            info={"kind": "deferred-call-requires", "callee": fc.key, "via": what})
        finally:
            I.frames.pop()


def _kwargs_of(I, env):
    kw = env.get("**kwargs")
    if kw is None:
        kw = env.get("kwargs") or {}
    if isinstance(kw, VDict):
        kw = dict(I.container(kw.ref).entries)
    return kw


def delay_add(I, env, args, kwargs):
    dm = env["self"].ref
    name = env.get("name", NONE)
    if I.force(name).tag == "none":
        I.ctx.fresh_n += 1
        key = "uuid#%d" % I.ctx.fresh_n
    elif I.pyconst(I.force(name)) is MISSING:
        # a computed (symbolic) name may coincide with any pending delay and replace it
        kw = _kwargs_of(I, env)
        _check_deferred_requires(I, env["callback"], kw, "delay.add")
        havoc_pending(I, dm)
        emit(I, "delay.add", dm=dm, name=name, ms=env["ms"], callback=env["callback"], kwargs=kw, computed_name=True)
        return name
    else:
        key = _name_key(I, name)
    kw = _kwargs_of(I, env)
    _check_deferred_requires(I, env["callback"], kw, "delay.add")
    p = _pending(I, dm)
    I.set_container(p.ref, I.container(p.ref).set(key, VTuple([env["ms"], env["callback"]])))
    emit(I, "delay.add", dm=dm, name=key, ms=env["ms"], callback=env["callback"], kwargs=kw)
    return VStr(key)


def delay_remove(I, env, args, kwargs):
    dm = env["self"].ref
    key = _name_key(I, env["name"])
    p = _pending(I, dm)
    I.set_container(p.ref, I.container(p.ref).set(key, TOMB))
    emit(I, "delay.remove", dm=dm, name=key)
    return NONE


def delay_reset(I, env, args, kwargs):
    delay_remove(I, env, args, kwargs)
    return delay_add(I, env, args, kwargs)


def delay_add_if_doesnt_exist(I, env, args, kwargs):
    dm = env["self"].ref
    key = _name_key(I, env["name"])
    if I.ctx.branch(delay_present(I, dm, key)):
        return VStr(key)
    return delay_add(I, env, args, kwargs)


def delay_check(I, env, args, kwargs):
    dm = env["self"].ref
    key = _name_key(I, env["delay"])
    return VBool(delay_present(I, dm, key))


def delay_clear(I, env, args, kwargs):
    """every delay of this manager is cancelled"""
    dm = env["self"].ref
    p = _pending(I, dm)
    I.set_container(p.ref, DConc(()))
    I.heap.data[(dm, "all_cleared")] = True
    I.modified.add((dm, "all_cleared"))
    emit(I, "delay.clear", dm=dm)
    return NONE


def fresh_delay_manager(I, name, cls="DelayManager"):
    o = Obj(cls, ObjS(cls, {}), name)
    ref = Ref(name + ".pending")
    I.init_loc((ref, "$"), DConc(()))
    I.init_loc((o, "pending"), VDict(ref))
    return VObj(o)


def havoc_pending(I, dm):
    """the set of pending delays becomes unknown (new epoch of initial flags, empty overlay)"""
    p = _pending(I, dm)
    I.ctx.fresh_n += 1
    I.heap.data[(dm, "epoch")] = I.ctx.fresh_n
    I.heap.data.pop((dm, "all_cleared"), None)
    I.heap.data[(p.ref, "$")] = DConc(())
    I.modified.add((p.ref, "$"))


DelayMgr = Init(fresh_delay_manager)


def declare_delay_client(C, cls="DelayManager"):
    """DelayManager as seen by its clients (literal delay names)."""
    C.cls(cls, fields={})
    C.havoc_hooks[(cls, "pending")] = havoc_pending
    P = dict(ms=Num, callback=Fn, name=Opt(Str))
    R = "client view of mpf.core.delays.DelayManager (the manager itself is verified under C13)"
    C.ext(cls + ".add", params=P, model=delay_add, trusted_reason=R)
    C.ext(cls + ".reset", params=P, model=delay_reset, trusted_reason=R)
    C.ext(cls + ".add_if_doesnt_exist", params=P, model=delay_add_if_doesnt_exist, trusted_reason=R)
    C.ext(cls + ".remove", params=dict(name=Str), model=delay_remove, trusted_reason=R)
    C.ext(cls + ".check", params=dict(delay=Str), model=delay_check, trusted_reason=R)
    C.ext(cls + ".clear", params={}, model=delay_clear, trusted_reason=R)


# ---------------------------------------------------------------- no-op notification interfaces
def noop(I, env, args, kwargs):
    return NONE


def declare_noop(C, cls, *methods, reason="notification only; does not touch the state under proof"):
    if cls not in C.classes:
        C.cls(cls, fields={})
    for m in methods:
        C.ext("%s.%s" % (cls, m), model=noop, trusted_reason=reason)


# ---------------------------------------------------------------- events as trace effects
def make_post(kind):
    def post(I, env, args, kwargs):
        ev_name = args[0] if args else kwargs.get("event")
        kw = {k: v for k, v in kwargs.items() if k not in ("event", "callback")}
        e = emit(I, "post", kind=kind, event=ev_name, kwargs=kw, callback=kwargs.get("callback", NONE))
        return NONE
    return post


def declare_events(C):
    C.cls("EventManager", fields={})
    for k in ("post", "post_boolean", "post_relay", "post_queue"):
        C.ext("EventManager.%s" % k, model=make_post(k),
              trusted_reason="event posting recorded as a trace effect (dispatch verified under C01/C02)")


# ---------------------------------------------------------------- native demos as finite checks
def native_script_check(script, what):
    """like native_demo_check, for an enumeration script under replay/ (bounded; never counted as proved)"""
    def check(C):
        import os
        import subprocess
        from pyvc import extract
        here = os.path.dirname(os.path.dirname(os.path.abspath(__file__)))
        r = subprocess.run(["/venv/bin/python", "-W", "ignore", os.path.join(here, "replay", script)], capture_output=True,
                           text=True, timeout=1200, cwd=extract.REPO, env=dict(os.environ, PYTHONPATH=extract.REPO))
        lines = [l for l in r.stdout.strip().splitlines() if l.startswith(("ok", "FAIL"))]
        return [("native (BOUNDED): %s (replay/%s)" % (what, script), r.returncode == 0,
                 (lines[-1] if lines else "") if r.returncode == 0 else
                 "FAILS: " + (lines[-1] if lines else " ".join((r.stdout + r.stderr).split())[-400:]))]
    return check


def native_demo_check(demo, what):
    """a stand-alone history on the REAL code (replay/demos/<demo>, run with /venv python on the tree under check): exit 0
    = the property holds on that history.  Used where a contract rests on an assumed relation whose real meaning is a
    few lines of Python (labelled finite, not proved)."""
    def check(C):
        import os
        import subprocess
        from pyvc import extract
        here = os.path.dirname(os.path.dirname(os.path.abspath(__file__)))
        r = subprocess.run(["/venv/bin/python", os.path.join(here, "replay", "demos", demo)], capture_output=True,
                           text=True, timeout=600, cwd=extract.REPO, env=dict(os.environ, PYTHONPATH=extract.REPO))
        tail = (r.stdout + r.stderr).strip().splitlines()[-1:] or [""]
        return [("native: %s (replay/demos/%s)" % (what, demo), r.returncode == 0,
                 "holds" if r.returncode == 0 else "FAILS: " + " ".join((r.stdout + r.stderr).split())[-400:])]
    return check
