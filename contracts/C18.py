"""C18 - Logic blocks count, accrue and sequence exactly as specified.

The base-class methods of LogicBlock are verified once per concrete subclass
(Counter, Accrual, Sequence): the contract key is '<Sub>.<method>' while the
verified text is the real 'LogicBlock.<method>' body, with ``self`` of the
subclass, so overridden methods resolve to the subclass contracts.
"""
import z3

from pyvc.contract import ContractSet, LoopSpec
from pyvc.vals import *       # noqa
from . import common
from .common import DelayMgr, delay_present, events_named, emit

LB = "mpf/devices/logic_blocks.py"
TEMPLATE_INT = ObjS("Template", value=Int)


def build():
    C = ContractSet("C18", "Logic blocks count, accrue and sequence exactly as specified")
    common.declare_delay_client(C)
    common.declare_events(C)
    C.cls("Template", fields={})
    C.ext("Template.evaluate", model=lambda I, env, a, k: I.read_field(env["self"].ref, "value"),
          trusted_reason="a validated template_int evaluates to an int, constant during a call (A-CONFIG)")
    C.cls("ModeDevice", file="mpf/core/mode_device.py", fields={})
    C.fn("ModeDevice.device_removed_from_mode", inline=True, no_inv=True)

    def block_delays_cleared(I):
        this = I.frames[0].env["self"].ref
        dm = I.force(I.read_field(this, "delay")).ref
        evs = [e for e in I.cur_trace() if e.name.startswith("delay.") and e.args.get("dm") is dm]
        return VBool(bool(evs) and evs[-1].name == "delay.clear")
    C.helpers["block_delays_cleared"] = block_delays_cleared
    C.ext("ModeDevice.enable", model=common.noop, trusted_reason="mpf/core/mode_device.py ModeDevice.enable is empty")
    C.cls("LogicBlock", file=LB, bases=["ModeDevice"], check_bases=True)
    C.fn("LogicBlock.device_removed_from_mode", inline=True, no_inv=True)
    C.finite_checks.append(common.native_demo_check("c18_sequence_shared_first_last_event.py", "a sequence whose first and last step share an event advances ONE step per event, also on the completing event"))
    C.finite_checks.append(common.native_demo_check(
        "c18_timeout_fires_after_mode_stop.py",
        "a mode block with logic_block_timeout: nothing fires (and nothing crashes) after its mode has stopped"))

    # ------------------------------------------------------------------ helpers
    def _this(I):
        return I.frames[0].env["self"].ref

    def n_posts(I, name):
        """number of events with this name posted on the path"""
        acc = z3.IntVal(0)
        for e in events_named(I, "post"):
            acc = acc + z3.If(I.eq(e.args["event"], name), 1, 0)
        return VInt(acc)
    C.helpers["n_posts"] = n_posts

    def n_posts_total(I):
        return VInt(len(events_named(I, "post")))
    C.helpers["n_posts_total"] = n_posts_total

    def post_kw(I, name, key):
        """keyword argument `key` of the first post of event `name` (None if absent)"""
        for e in events_named(I, "post"):
            if z3.is_true(z3.simplify(I.eq(e.args["event"], name))):
                return e.args["kwargs"].get(I.pyconst(I.force(key)), NONE)
        return NONE
    C.helpers["post_kw"] = post_kw

    def completions(I):
        return VInt(len(events_named(I, "complete")))
    C.helpers["completions"] = completions

    def pending(name):
        def h(I):
            dm = I.force(I.read_field(_this(I), "delay")).ref
            return VBool(delay_present(I, dm, name))
        return h
    C.helpers["timeout_pending"] = pending("timeout")
    C.helpers["window_pending"] = pending("ignore_hits_within_window")

    C.trace_helpers = {"block_delays_cleared", "n_posts", "n_posts_total", "post_kw", "completions", "delayed_call_is_new",
                       "delayed_call_args"}

    def emit_posts(*exprs):
        """contract-level emission of the posts a callee guarantees (so callers can use its trace clauses)"""
        def f(I, env, res):
            I.frames.append(type(I.frames[0])(None, dict(env)))
            I.spec_depth += 1
            try:
                for ex in exprs:
                    import ast as _ast
                    v = I.eval(_ast.parse(ex, mode="eval").body)
                    emit(I, "post", kind="post", event=v, kwargs={}, callback=NONE, via="contract")
            finally:
                I.spec_depth -= 1
                I.frames.pop()
        return f

    COMMON_CFG = dict(reset_on_complete=Bool, disable_on_complete=Bool, logic_block_timeout=Int,
                      events_when_complete=ListOf(Str, 2), events_when_hit=ListOf(Str, 2),
                      persist_state=Bool, enable_events=Opt(Rec()))
    MACHINE = ObjS("MachineController", events=ObjS("EventManager"))
    ST = "self._state is not None"
    UPD = "'logicblock_{}_updated'.format(self.name)"

    def block(cls, value_shape, start, cfg_extra, extra_fields=None, invariants=()):
        cfg = dict(COMMON_CFG)
        cfg.update(cfg_extra)
        fields = dict(config=Rec(cfg), machine=MACHINE, delay=DelayMgr, name=Str,
                      _state=Opt(ObjS("LogicBlockState", enabled=Bool, completed=Bool, value=value_shape)),
                      _start_enabled=Opt(Bool))
        fields.update(extra_fields or {})
        C.cls(cls, file=LB, bases=["LogicBlock"], fields=fields, invariants=list(invariants) + [
            ("timeout config is ms >= 0", "self.config['logic_block_timeout'] >= 0"),
            ("hit, completion and update event names are distinct (config sanity, so posts can be told apart)",
             "self.config['events_when_hit'][0] != self.config['events_when_complete'][0] and "
             "self.config['events_when_hit'][0] != self.config['events_when_complete'][1] and "
             "self.config['events_when_hit'][1] != self.config['events_when_complete'][0] and "
             "self.config['events_when_hit'][1] != self.config['events_when_complete'][1] and "
             "self.config['events_when_hit'][0] != %s and self.config['events_when_hit'][1] != %s and "
             "self.config['events_when_complete'][0] != %s and self.config['events_when_complete'][1] != %s"
             % (UPD, UPD, UPD, UPD))])
        q = "LogicBlock."
        for prop in ("value", "enabled", "completed"):
            C.fn("%s.%s" % (cls, prop), qualname=q + prop, is_property=True, inline=True, no_inv=True)
            C.fn("%s.%s@setter" % (cls, prop), qualname=q + prop + "@setter", inline=True, no_inv=True)
        for h in ("post_update_event", "_post_hit_events", "_logic_block_timer_start"):
            C.fn("%s.%s" % (cls, h), qualname=q + h, inline=True, no_inv=True)
        C.fn("%s.get_start_value" % cls, inline=True, no_inv=True)
        C.fn("%s.device_removed_from_mode" % cls, qualname=(q if cls != "Counter" else "Counter.") + "device_removed_from_mode",
             params=dict(mode=Opaque("Mode")),
             ensures=[("RM1: when its mode stops the block drops its per-player state AND every timer of its own: a pending "
                       "logic_block_timeout would fire on a block without state (crash) or on the next player's state, an "
                       "open hit window would swallow the next player's first hit; a counter is not left ignoring hits (the "
                       "class invariant 'hits are ignored only while the delay that ends it is pending' holds afterwards)",
                       "self._state is None and self.mode is None and block_delays_cleared()" +
                       (" and not self.ignore_hits" if cls == "Counter" else ""))],
             modifies=["self._state", "self.mode", "self.delay.pending.**"] + (["self.ignore_hits"] if cls == "Counter" else []),
             raises={})
        SV = "self._state.value"
        same_val = "%s == old(%s)" % (SV, SV)

        def emit_complete(I, env, res):
            """the callee's completion happened iff it was not completed before (trace marker for callers)"""
            st = I.force(I.read_field(env["self"].ref, "_state", heap=I.old_heap))
            was = I.force(I.read_field(st.ref, "completed", heap=I.old_heap))
            if not I.ctx.branch(was.t):
                emit(I, "complete", via="contract")
                cfg = I.force(I.read_field(env["self"].ref, "config")).ref
                evs = I.container(I.force(I.read_field(cfg, "events_when_complete")).ref).items
                for e in evs:
                    emit(I, "post", kind="post", event=e, kwargs={}, callback=NONE, via="contract")

        C.fn("%s.enable" % cls, qualname=q + "enable", requires=[ST], emits=emit_posts(UPD),
             ensures=[("enabled", "self._state.enabled == True"), ("value untouched", same_val),
                      ("completed untouched", "self._state.completed == old(self._state.completed)"),
                      ("update event posted", "n_posts(%s) == 1" % UPD),
                      ("timeout (re)started iff configured",
                       "implies(self.config['logic_block_timeout'], timeout_pending())")],
             modifies=["self._state.enabled", "self.delay.pending"], raises={})
        C.fn("%s.disable" % cls, qualname=q + "disable", requires=[ST],
             ensures=[("disabled", "self._state.enabled == False"), ("value untouched", same_val),
                      ("completed untouched", "self._state.completed == old(self._state.completed)"),
                      ("timeout removed", "not timeout_pending()")],
             modifies=["self._state.enabled", "self.delay.pending"], raises={})
        C.fn("%s.reset" % cls, qualname=q + "reset", requires=[ST],
             ensures=[("not completed", "self._state.completed == False"),
                      ("value back to the start value", "%s == %s" % (SV, start)),
                      ("enabled untouched", "self._state.enabled == old(self._state.enabled)"),
                      ("timeout restarted iff configured",
                       "implies(self.config['logic_block_timeout'], timeout_pending())")],
             modifies=["self._state.completed", "self._state.value", "self.delay.pending"], raises={})
        C.fn("%s.restart" % cls, qualname=q + "restart", requires=[ST],
             ensures=[("enabled, not completed, at start value",
                       "self._state.enabled == True and self._state.completed == False and %s == %s" % (SV, start))],
             modifies=["self._state.completed", "self._state.value", "self._state.enabled", "self.delay.pending"],
             raises={})
        C.fn("%s.complete" % cls, qualname=q + "complete", requires=[ST], emits=emit_complete,
             ensures=[
                 ("already complete: nothing happens",
                  "implies(old(self._state.completed), self._state.completed and %s and "
                  "self._state.enabled == old(self._state.enabled) and n_posts_total() == 0)" % same_val),
                 ("completion events posted once each (once per completion)",
                  "implies(not old(self._state.completed), "
                  "n_posts(self.config['events_when_complete'][0]) == (2 if self.config['events_when_complete'][0] "
                  "== self.config['events_when_complete'][1] else 1) and "
                  "n_posts(self.config['events_when_complete'][1]) >= 1)"),
                 ("then resets as configured",
                  "implies(not old(self._state.completed), self._state.completed == (not self.config['reset_on_complete']) "
                  "and %s == (%s if self.config['reset_on_complete'] else old(%s)))" % (SV, start, SV)),
                 ("then disables as configured",
                  "implies(not old(self._state.completed), self._state.enabled == "
                  "(old(self._state.enabled) and not self.config['disable_on_complete']))"),
                 ("timeout not left running after a completion that disables or does not reset",
                  "implies(not old(self._state.completed) and (self.config['disable_on_complete'] or "
                  "not self.config['reset_on_complete']), not timeout_pending())"),
             ],
             modifies=["self._state.completed", "self._state.value", "self._state.enabled", "self.delay.pending"],
             raises={})
        C.fn("%s._logic_block_timeout" % cls, qualname=q + "_logic_block_timeout", requires=[ST],
             emits=emit_posts("'{}_timeout'.format(self.name)"),
             ensures=[("timeout event posted", "n_posts('{}_timeout'.format(self.name)) == 1"),
                      ("progress reset", "self._state.completed == False and %s == %s" % (SV, start))],
             modifies=["self._state.completed", "self._state.value", "self.delay.pending"], raises={})
        for ev in ("event_disable", "event_reset", "event_restart"):
            C.fn("%s.%s" % (cls, ev), qualname=q + ev, requires=[ST],
                 modifies=["self._state.completed", "self._state.value", "self._state.enabled",
                           "self.delay.pending"], raises={})

    # ------------------------------------------------------------------ Counter
    CSTART = "self.config['starting_count'].evaluate([])"
    block("Counter", Int, CSTART,
          dict(count_complete_value=Opt(TEMPLATE_INT), multiple_hit_window=Int, count_interval=Int,
               direction=Str, starting_count=TEMPLATE_INT),
          extra_fields=dict(ignore_hits=Bool, hit_value=Int),
          invariants=[("direction is up or down (enum)",
                       "self.config['direction'] == 'up' or self.config['direction'] == 'down'"),
                      ("hit window is ms >= 0", "self.config['multiple_hit_window'] >= 0"),
                      ("hits are ignored only while the window delay that ends it is pending",
                       "implies(self.ignore_hits, window_pending())")])
    GOAL = ("(ccv is not None and (nv >= ccv if self.config['direction'] == 'up' else nv <= ccv))")
    C.fn("Counter.check_complete", params=dict(count_complete_value=Opt(Int)), requires=[ST], result=Bool,
         lets={"ccv": "count_complete_value if count_complete_value is not None else "
                      "(self.config['count_complete_value'].evaluate([]) if self.config['count_complete_value'] "
                      "else None)",
               "nv": "self._state.value"},
         ensures=[("true exactly when the goal is reached or passed in the counting direction",
                   "result == %s" % GOAL)],
         modifies=[], raises={})
    C.fn("Counter.count", requires=[ST],
         lets={"ccv": "self.config['count_complete_value'].evaluate([]) if self.config['count_complete_value'] "
                      "is not None else None",
               "accepted": "self._state.enabled and not self.ignore_hits",
               "nv": "self._state.value + self.hit_value",
               "goal": GOAL,
               "completes": "accepted and %s and not self._state.completed" % GOAL},
         ensures=[
             ("a hit while disabled or inside the hit window changes nothing and posts nothing",
              "implies(not accepted, self._state.value == old(self._state.value) and n_posts_total() == 0 "
              "and completions() == 0 and self.ignore_hits == old(self.ignore_hits) "
              "and self._state.completed == old(self._state.completed))"),
             ("an accepted hit adds exactly one interval in the counting direction (then resets if completing)",
              "implies(accepted, self._state.value == (%s if (completes and self.config['reset_on_complete']) "
              "else nv))" % CSTART),
             ("hit events posted once per accepted hit, with the new count",
              "implies(accepted, n_posts(self.config['events_when_hit'][0]) >= 1 and "
              "n_posts(self.config['events_when_hit'][1]) >= 1 and "
              "post_kw(self.config['events_when_hit'][0], 'count') == nv)"),
             ("completion exactly once, at the moment the goal is reached",
              "completions() == (1 if completes else 0)"),
             ("hit window opens after an accepted hit when configured",
              "implies(accepted, self.ignore_hits == (self.config['multiple_hit_window'] != 0) and "
              "implies(self.config['multiple_hit_window'] != 0, window_pending()))"),
         ],
         modifies=["self._state.completed", "self._state.value", "self._state.enabled", "self.delay.pending",
                   "self.ignore_hits"], raises={})
    C.fns["Counter.count"].emits = lambda I, env, res: None   # callers (event_count) only rely on the frame
    C.fn("Counter.event_count", requires=[ST],
         modifies=["self._state.completed", "self._state.value", "self._state.enabled", "self.delay.pending",
                   "self.ignore_hits"], raises={})
    C.fn("Counter.stop_ignoring_hits", ensures=["self.ignore_hits == False"], modifies=["self.ignore_hits"],
         raises={})

    # ------------------------------------------------------------------ delayed control events (device manager)
    C.cls("MpfController", fields={})
    C.cls("DeviceManager", file="mpf/core/device_manager.py", bases=["MpfController"], fields={})

    def delayed_call_is_new(I):
        """exactly one delay is added for the control event, under a fresh (uuid) name, so it can never replace a
        delay that is already pending - every accepted count/step event keeps its own delayed call"""
        adds = events_named(I, "delay.add")
        others = [e for e in I.cur_trace() if e.name in ("delay.remove", "delay.clear")]
        if len(adds) != 1 or others:
            return VBool(False)
        return VBool(not adds[0].args.get("computed_name") and str(adds[0].args["name"]).startswith("uuid#"))
    C.helpers["delayed_call_is_new"] = delayed_call_is_new

    def delayed_call_args(I, callback, ms):
        adds = events_named(I, "delay.add")
        if len(adds) != 1:
            return VBool(False)
        return VBool(z3.And(I.eq(adds[0].args["callback"], callback), I.eq(adds[0].args["ms"], ms)))
    C.helpers["delayed_call_args"] = delayed_call_args
    C.fn("DeviceManager._control_event_handler", params=dict(callback=Fn, ms_delay=Int, delay_mgr=DelayMgr),
         ensures=[("a delayed control event gets its own delayed call (never replaces a pending one)",
                   "delayed_call_is_new()"),
                  ("for the configured delay and handler", "delayed_call_args(callback, ms_delay)")],
         modifies=["delay_mgr.pending"], raises={})

    # ------------------------------------------------------------------ Sequence
    block("Sequence", Int, "0", dict(events=Seq(Str)))
    C.fn("Sequence.hit", params=dict(step=Opt(Int)), requires=[ST],
         lets={"accepted": "self._state.enabled and (step is None or step == self._state.value)",
               "completes": "self._state.enabled and (step is None or step == self._state.value) and "
                            "self._state.value + 1 >= len(self.config['events']) and not self._state.completed"},
         ensures=[
             ("out-of-order or disabled hits change nothing",
              "implies(not accepted, self._state.value == old(self._state.value) and n_posts_total() == 0 and "
              "completions() == 0)"),
             ("an in-order hit advances exactly one step (then resets if completing)",
              "implies(accepted, self._state.value == (0 if (completes and self.config['reset_on_complete']) else "
              "old(self._state.value) + 1))"),
             ("hit events once per accepted hit",
              "implies(accepted, n_posts(self.config['events_when_hit'][0]) >= 1)"),
             ("completion exactly once when the last step is reached", "completions() == (1 if completes else 0)"),
         ],
         modifies=["self._state.completed", "self._state.value", "self._state.enabled", "self.delay.pending"],
         raises={})

    # ------------------------------------------------------------------ Accrual (3 steps: bounded in the step count)
    block("Accrual", ListOf(Bool, 3), "[False, False, False]", dict(events=ListOf(Str, 3)))
    C.fn("Accrual.hit", params=dict(step=Int), requires=[ST, ("step is a configured step", "0 <= step < 3")],
         lets={"en": "self._state.enabled",
               "all_after": "(self._state.value[0] or step == 0) and (self._state.value[1] or step == 1) and "
                            "(self._state.value[2] or step == 2)",
               "was": "self._state.value[step]"},
         ensures=[
             ("disabled: nothing happens", "implies(not en, n_posts_total() == 0 and completions() == 0)"),
             ("hit events iff the step was not yet done",
              "implies(en, (n_posts(self.config['events_when_hit'][0]) >= 1) == (not was))"),
             ("completes exactly when every step is done, in any order",
              "implies(en, completions() == (1 if (all_after and not old(self._state.completed)) else 0))"),
         ],
         modifies=["self._state.completed", "self._state.value", "self._state.enabled", "self.delay.pending"],
         raises={})
    C.bounded = ["Accrual.*: verified for accruals with exactly 3 steps (concrete-length state list); "
                 "events_when_hit / events_when_complete lists of length 2 (loop bodies independent of position)"]

    C.assume("A-CONFIG: logic block config values have the declared types (bool, ms int >= 0, enum up/down, "
             "template_int) (C12)")
    C.assume("DeviceMonitor's generated __setattr__ (placeholder notification) does not change block state")
    C.assume("LogicBlockState objects are not aliased between blocks (A-NOALIAS; C11 shows they are per player)")
    return C


def sequence_handlers_set():
    """a sequence whose consecutive steps share an event must advance ONE step per posting: the handler of a later
    step is registered with a higher priority, so it runs (and is rejected as out of order) before the earlier step's
    handler advances the sequence"""
    C = ContractSet("C18s", "sequence step handlers are ordered by step")
    C.strings = False
    C.cls("LogicBlock", fields={})
    C.cls("EventManager", fields={})
    NSTEP = common.bound(2, 3)

    def add_handler(I, env, a, k):
        emit(I, "add_handler", event=a[0] if a else k.get("event"), handler=a[1] if len(a) > 1 else k.get("handler"),
             priority=(a[2] if len(a) > 2 else k.get("priority", VInt(1))), kwargs=dict(k))
        return NONE
    C.ext("EventManager.add_handler", model=add_handler, trusted_reason="EventManager.add_handler (C01): handlers of "
          "one event run in descending priority; default priority 1")

    def steps(I, name):
        return I.new_list([VStr(z3.String("%s[%d]" % (name, i))) for i in range(I.ctx.fork(NSTEP + 1))], name)
    C.cls("Sequence", file=LB, bases=["LogicBlock"],
          fields=dict(config=Rec(events=Init(steps)), machine=ObjS("MachineController", events=ObjS("EventManager"))))
    C.cls("Util", fields={})
    C.globals["Util"] = VCls("Util")

    def event_list(I, a, k):
        """the events of one step: one or two names"""
        base = I.force(a[0])
        n = 1 + I.ctx.fork(2)
        return I.new_list([VStr(z3.String(I.fresh_name("step_event"))) for _ in range(n)], I.fresh_name("events"))
    C.globals["Util.string_to_event_list"] = VFn("model", model=event_list)

    def ordered_by_step(I):
        """every step gets its handlers (callback hit, argument step = its index), and handlers of later steps have a
        strictly higher priority than those of earlier steps"""
        this = I.frames[0].env["self"].ref
        evs = events_named(I, "add_handler")
        nsteps = len(I.container(I.force(I.read_field(I.force(I.read_field(this, "config")).ref, "events")).ref).items)
        seen = set()
        cs = []
        for e in evs:
            h = I.force(e.args["handler"])
            if not (h.tag == "fn" and h.kind == "bound" and h.name == "hit" and h.obj is this):
                return VBool(False)
            st = e.args["kwargs"].get("step")
            if st is None:
                return VBool(False)
            sv = z3.simplify(I.force(st).t)
            if not z3.is_int_value(sv):
                return VBool(False)
            seen.add(sv.as_long())
        if seen != set(range(nsteps)):
            return VBool(False)
        for a_ in evs:
            for b_ in evs:
                sa = z3.simplify(I.force(a_.args["kwargs"]["step"]).t).as_long()
                sb = z3.simplify(I.force(b_.args["kwargs"]["step"]).t).as_long()
                if sa < sb:
                    cs.append(I.force(a_.args["priority"]).t < I.force(b_.args["priority"]).t)
        return VBool(z3.And(cs + [z3.BoolVal(True)]))
    C.helpers["ordered_by_step"] = ordered_by_step
    C.trace_helpers = {"ordered_by_step"}
    C.fn("Sequence.setup_event_handlers",
         loops_by_text={"self.config['events']": LoopSpec(invariant=[], unroll=True),
                        "string_to_event_list": LoopSpec(invariant=[], unroll=True)},
         ensures=[("Q1: one posting of an event that belongs to consecutive steps advances the sequence by ONE step: "
                   "handlers are registered per step with a priority that rises with the step", "ordered_by_step()")],
         modifies=[], raises={}, bounded="BOUNDED: sequences of at most %d steps with 1-2 events each" % NSTEP)
    return C


def build_extra():
    # delayed count / step events of a MODE's logic block live in that mode's delay manager, so a hit scheduled just
    # before the mode stops cannot land on the block of the mode's next run (C07's contract L5, restricted)
    from . import C07
    c07 = C07.build()
    c07.pid = "C18m"
    c07.replay_pid = "C07"
    c07.only_verify = ["Mode._control_event_handler"]
    return [sequence_handlers_set(), c07]
