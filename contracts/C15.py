"""C15 - Persistent data is durable, never torn, and survives write failures.

Ghost file system  fs : path -> content code   (0 = absent, -1 = TORN / partially written, content(d) > 0 for data d).
The only functions that change it are the assumed library contracts (A-LIB):

* ``interface.save(p, d)``  first makes fs[p] TORN (every crash point inside the write), then either raises (fs[p] stays
  torn) or completes with fs[p] = content(d); it touches only p;
* ``os.replace(a, b)``      either raises with nothing changed, or atomically fs[b] = fs[a], fs[a] = absent.

Every change of fs is a trace event, so "at every instant (= after every fs step, which are the only crash points that
matter) the target holds the old or the new complete version" is a clause over the trace of FileManager.save.

The writer thread is verified as a sequential contract under a rely: at every library call another thread may run
``save_all`` (new data, dirty flag set) or take/release the global busy flag; it never clears the dirty flag and it
never touches this manager's file.  After the thread has seen the stop flag no further ``save_all`` happens
(A-SHUTDOWN: a clean shutdown).

Machine variables: the store is a real dict; set/configure are proved on the slice of the store at the one key they
touch (structural obligation: they subscript the store with their ``name`` parameter only), the whole-store functions
(_write_machine_vars_to_disk, load_machine_vars) are BOUNDED checks over stores / files of at most 2 entries.
"""
import ast as pyast

import z3

from pyvc.contract import ContractSet, LoopSpec
from pyvc.vals import *       # noqa
from pyvc import extract
from pyvc.ctx import Unsupported
from . import common
from .common import emit, events_named

FM = "mpf/core/file_manager.py"
DM = "mpf/core/data_manager.py"
MV = "mpf/core/machine_vars.py"

ABSENT, TORN = 0, -1
DATA = Opaque("Data")


def path_model_check(C):
    """the string model of os.path.dirname / basename / splitext used in the proof agrees with the real functions on
    every path over the alphabet {'/', 'a', '_', '.'} up to length 7 (posixpath)"""
    import itertools
    import posixpath
    bad = []
    n = 0
    for L in range(0, 8):
        for tup in itertools.product("/a_.", repeat=L):
            f = "".join(tup)
            n += 1
            b, d = posixpath.basename(f), posixpath.dirname(f)
            h = f[:len(f) - len(b)]
            ok = f.endswith(b) and "/" not in b and (h == "" or h.endswith("/"))
            if h and h == "/" * len(h):
                ok = ok and d == h
            else:
                ok = ok and h.startswith(d) and set(h[len(d):]) <= {"/"} and not d.endswith("/") and (h == "" or len(h) > len(d))
            r, e = posixpath.splitext(f)
            ok = ok and r + e == f
            if not ok:
                bad.append(f)
    return [("path model: basename/dirname/splitext axioms hold for all %d paths over {/,a,_,.} up to length 7" % n,
             not bad, "all agree" if not bad else "differs for %r" % bad[:5])]


def native_check(C):
    """BOUNDED native twins of the ghost models, run on the real code with /venv python (replay/c15_native.py)"""
    import json
    import os
    import subprocess
    here = os.path.dirname(os.path.dirname(os.path.abspath(__file__)))
    r = subprocess.run(["/venv/bin/python", os.path.join(here, "replay", "c15_native.py")], capture_output=True,
                       text=True, timeout=600, env=dict(os.environ, PYTHONPATH=extract.REPO, PYVC_REPO=extract.REPO))
    if r.returncode != 0:
        raise RuntimeError("c15_native.py failed: %s" % r.stderr[-800:])
    return [tuple(x) for x in json.loads(r.stdout)["rows"]]


def machine_vars_part(C, store_kind):
    # ------------------------------------------------------------------ machine variables
    common.declare_events(C)
    C.cls("LogMixin", fields={})
    C.cls("DataStore", fields={})

    def save_all_model(I, env, a, k):
        emit(I, "save_all", data=k.get("data", a[0] if a else None))
        return NONE
    C.ext("DataStore.save_all", model=save_all_model,
          trusted_reason="DataManager.save_all (verified above): the dict handed over is what the writer thread saves")
    C.cls("Clock", fields={})
    C.cls("DateTime", fields={})
    NOW = z3.Real("now_ts")
    C.ext("Clock.get_datetime", model=lambda I, env, a, k: VOpaque("DateTime", z3.Const("dt_now", usort("DateTime"))),
          trusted_reason="wall clock")
    C.ext("DateTime.timestamp", model=lambda I, env, a, k: VReal(NOW), trusted_reason="wall clock")
    C.helpers["now"] = lambda I: VReal(NOW)
    ENTRY_FIELDS = (("value", Scalar), ("persist", Bool), ("expire_secs", Opt(Int)), ("timeout", Opt(Real)))

    def store_slice(I, name):
        """the variable store restricted to the key the function is called with: no entry, or one entry"""
        key = I.frames[0].env["name"]
        if I.ctx.fork(2) == 0:
            return I.new_dict([], name)
        ent = I.new_dict([(f, I.fresh(sh, "%s[name].%s" % (name, f))) for f, sh in ENTRY_FIELDS], name + "[name]")
        return I.new_dict([(key, ent)], name)

    def store_small(I, name):
        """BOUNDED: a store of 0..2 variables with symbolic, distinct names"""
        n = I.ctx.fork(common.bound(2, 3) + 1)
        ents = []
        for i in range(n):
            k = VStr(z3.String("%s.key%d" % (name, i)))
            ent = I.new_dict([(f, I.fresh(sh, "%s[%d].%s" % (name, i, f))) for f, sh in ENTRY_FIELDS],
                             "%s[%d]" % (name, i))
            ents.append((k, ent))
        for i_ in range(n):
            for j_ in range(i_ + 1, n):
                I.ctx.assume(ents[i_][0].t != ents[j_][0].t)
        return I.new_dict(ents, name)
    MACHINE = ObjS("MachineController", config=Rec(mpf=Rec(save_machine_vars_to_disk=Bool)), clock=ObjS("Clock"),
                   events=ObjS("EventManager"), monitors=Rec(machine_vars=Seq(Fn)))
    C.cls("MachineVariables", file=MV, bases=["LogMixin"], fields=dict(
        machine=MACHINE, machine_vars=Init(store_slice if store_kind == "slice" else store_small), machine_var_monitor=Bool,
        machine_var_data_manager=ObjS("DataStore")))

    def last_saved(I):
        ev = events_named(I, "save_all")
        return I.force(ev[-1].args["data"]) if ev else None

    def _dget(I, d, key):
        """lookup in a concrete-structure dict by syntactic key (python constant or the identical symbolic term)"""
        return I.container(I.force(d).ref).get(key)

    def disk_entry_is(I, name, value, expire, expire_secs):
        """the last dict handed to the data manager holds name -> {value, expire, expire_secs} with these values"""
        d = last_saved(I)
        if d is None:
            return VBool(False)
        ent = _dget(I, d, I.force(name))
        if ent is None:
            return VBool(False)
        out = []
        for k, want in (("value", value), ("expire", expire), ("expire_secs", expire_secs)):
            got = _dget(I, ent, k)
            if got is None:
                return VBool(False)
            out.append(I.eq(got, want))
        return VBool(z3.And(*out))

    def disk_lacks(I, name):
        d = last_saved(I)
        if d is None:
            return VBool(False)
        return VBool(_dget(I, d, I.force(name)) is None)
    C.helpers["disk_entry_is"] = disk_entry_is
    C.helpers["disk_lacks"] = disk_lacks
    C.helpers["n_saves"] = lambda I: VInt(len(events_named(I, "save_all")))
    C.helpers["n_posts"] = lambda I: VInt(len(events_named(I, "post")))

    def posted_change(I, name, value, prev):
        ev = events_named(I, "post")
        if len(ev) != 1:
            return VBool(False)
        e = ev[0]
        kw = e.args["kwargs"]
        if set(kw) != {"value", "prev_value", "change"}:
            return VBool(False)
        return VBool(z3.And(I.eq(e.args["event"], VStr(z3.Concat(z3.StringVal("machine_var_"), I.force(name).t))),
                            I.eq(kw["value"], value), I.eq(kw["prev_value"], prev)))
    C.helpers["posted_change"] = posted_change
    C.trace_helpers = set(getattr(C, "trace_helpers", ())) | {"disk_entry_is", "disk_lacks", "n_posts", "posted_change",
                                                              "disk_matches_store", "n_saves", "reloaded", "expiry_kept",
                                                              "reload_announced"}
    ENT = "self.machine_vars[name]"
    FLAG = "self.machine.config['mpf']['save_machine_vars_to_disk']"
    C.fn("MachineVariables.configure_machine_var", params=dict(name=Str, persist=Bool, expire_secs=Opt(Int)),
         requires=[("expiry periods are not negative", "expire_secs is None or expire_secs >= 0")],
         ensures=[
             ("the variable exists afterwards", "name in self.machine_vars"),
             ("its persist flag and expiry period are the ones given",
              ENT + "['persist'] == persist and " + ENT + "['expire_secs'] == expire_secs"),
             ("its expiry time is now + period, or None without a period",
              ENT + "['timeout'] == (now() + expire_secs if expire_secs else None)"),
             ("an existing value is kept, a new variable starts as None",
              ENT + "['value'] == (old(" + ENT + "['value']) if old(name in self.machine_vars) else None)"),
         ],
         modifies=["self.machine_vars.**"], raises={}, inline_calls=True)
    C.fn("MachineVariables._write_machine_vars_to_disk", inline=True)
    C.fn("MachineVariables._write_machine_var_to_disk", params=dict(name=Str),
         requires=["name in self.machine_vars"],
         ensures=[
             ("a persisted variable is handed to the data manager with its value and expiry time",
              "implies(" + ENT + "['persist'] and " + FLAG + ", n_saves() == 1 and disk_entry_is(name, " + ENT +
              "['value'], " + ENT + "['timeout'], " + ENT + "['expire_secs']))"),
             ("nothing is written for a variable that is not persisted",
              "implies(not (" + ENT + "['persist'] and " + FLAG + "), n_saves() == 0)"),
         ],
         modifies=[], raises={}, emits=lambda I, env, res: None, inline_calls=True)
    C.fn("MachineVariables.get_machine_var", params=dict(name=Str),
         ensures=[("the stored value, or None for an unknown variable",
                   "result == (" + ENT + "['value'] if name in self.machine_vars else None)")],
         result=Scalar, modifies=[], raises={})
    CHANGED = "(not old(name in self.machine_vars) or old(" + ENT + "['value']) != value)"
    C.fn("MachineVariables.set_machine_var", params=dict(name=Str, value=Scalar, persist=Bool),
         loops={0: LoopSpec(invariant=[], modifies=[])},
         ensures=[
             ("the value is stored", "name in self.machine_vars and " + ENT + "['value'] == value"),
             ("an existing variable keeps its persist flag and expiry period; a new one gets the flag given",
              "(" + ENT + "['persist'] == old(" + ENT + "['persist']) and " + ENT + "['expire_secs'] == old(" + ENT +
              "['expire_secs'])) if old(name in self.machine_vars) else (" + ENT + "['persist'] == persist and " +
              ENT + "['expire_secs'] is None)"),
             ("a variable with an expiry period expires that period after this write",
              "implies(" + ENT + "['expire_secs'], " + ENT + "['timeout'] == now() + " + ENT + "['expire_secs'])"),
             ("P1: a persisted variable whose value changed (or that has an expiry period) is handed to the data "
              "manager with the new value and expiry time",
              "implies(" + ENT + "['persist'] and " + FLAG + " and (" + CHANGED + " or " + ENT + "['expire_secs']), "
              "disk_entry_is(name, value, " + ENT + "['timeout'], " + ENT + "['expire_secs']))"),
             ("a change is announced once with the new and the previous value",
              "implies(" + CHANGED + ", posted_change(name, value, old(" + ENT + "['value']) if old(name in "
              "self.machine_vars) else None))"),
             ("no announcement without a change", "implies(not " + CHANGED + ", n_posts() == 0)"),
         ],
         modifies=["self.machine_vars.**"], raises={}, inline_calls=True)
    if store_kind == "small":
        bounded_part(C, _dget, last_saved, ENTRY_FIELDS)
    C.assume("machine-variable values range over None, bool, int, float and str; containers and other YAML types are "
             "outside the value domain of the proof")

    def structural_store_access(C_):
        """set/configure/_write_machine_var_to_disk/get subscript the store with their `name` parameter only"""
        rows = []
        for q in ("configure_machine_var", "set_machine_var", "_write_machine_var_to_disk", "get_machine_var"):
            node, _ = extract.find_def(MV, "MachineVariables." + q)
            bad = []
            for n in pyast.walk(node):
                if isinstance(n, pyast.Subscript) and pyast.unparse(n.value) == "self.machine_vars" and \
                        pyast.unparse(n.slice) != "name":
                    bad.append(pyast.unparse(n))
                if isinstance(n, pyast.Attribute) and pyast.unparse(n) == "self.machine_vars" :
                    pass
            uses = [pyast.unparse(n) for n in pyast.walk(node)
                    if isinstance(n, pyast.Attribute) and pyast.unparse(n) == "self.machine_vars"]
            rows.append(("%s touches the store only at key `name`" % q, not bad,
                         "%d uses" % len(uses) if not bad else "other keys: %s" % bad[:3]))
        return rows
    if store_kind == "slice":
        C.finite_checks.append(structural_store_access)


def bounded_part(C, _dget, last_saved, ENTRY_FIELDS):
    """whole-store functions, BOUNDED: stores / data files of at most 2 variables (symbolic names and values)"""
    B = "BOUNDED: every store with at most %d variables / data file with at most 2, symbolic names and values" % common.bound(2, 3)

    def disk_matches_store(I):
        """the dict handed to the data manager is exactly the persisted subset: name -> {value, expire: timeout,
        expire_secs}"""
        d = last_saved(I)
        if d is None:
            return VBool(False)
        this = I.frames[0].env["self"].ref
        store = I.container(I.force(I.read_field(this, "machine_vars")).ref)
        out = []
        n_expected = 0
        for k, ent in store.entries:
            p = I.truth(_dget(I, ent, "persist"))
            got = _dget(I, d, k)
            if got is None:
                out.append(z3.Not(p))
                continue
            n_expected += 1
            gc = I.container(I.force(got).ref)
            if [kk for kk, _ in gc.entries] != ["value", "expire", "expire_secs"]:
                return VBool(False)
            out.append(z3.And(p, I.eq(gc.get("value"), _dget(I, ent, "value")),
                              I.eq(gc.get("expire"), _dget(I, ent, "timeout")),
                              I.eq(gc.get("expire_secs"), _dget(I, ent, "expire_secs"))))
        if len(I.container(d.ref).entries) != n_expected:
            return VBool(False)
        return VBool(z3.And(*out) if out else z3.BoolVal(True))
    C.helpers["disk_matches_store"] = disk_matches_store
    C.fns["MachineVariables._write_machine_vars_to_disk"].inline = False
    C.fn("MachineVariables._write_machine_vars_to_disk",
         ensures=[("P2: exactly the persisted variables are handed to the data manager, each with its value, expiry "
                   "time and expiry period", "n_saves() == 1 and disk_matches_store()")],
         modifies=[], raises={}, bounded=B, emits=lambda I, env, res: None, inline_calls=True)

    # ---- reload at boot
    def settings_variants(I, nm):
        v = I.ctx.fork(4)
        val = I.fresh(Scalar, nm + ".value")
        exp = I.fresh(Opt(Real), nm + ".expire")
        secs = I.fresh(Opt(Int), nm + ".expire_secs")
        if v == 0:
            return I.new_dict([("value", val), ("expire", exp), ("expire_secs", secs)], nm)
        if v == 1:
            return I.new_dict([("value", val)], nm)
        if v == 2:
            return I.new_dict([("expire", exp), ("expire_secs", secs)], nm)
        return I.fresh(Int, nm + ".notadict")

    def get_data(I, env, a, k):
        n = I.ctx.fork(3)
        ents = []
        for i in range(n):
            ents.append((VStr(z3.String("file.key%d" % i)), settings_variants(I, "file[%d]" % i)))
        if n == 2:
            I.ctx.assume(ents[0][0].t != ents[1][0].t)
        for kk, _ in ents:
            for sysname in SYSTEM_VARS:
                I.ctx.assume(kk.t != z3.StringVal(sysname))
        d = I.new_dict(ents, "file")
        emit(I, "get_data", data=d)
        return d
    SYSTEM_VARS = ("mpf_version", "mpf_extended_version", "python_version", "platform", "platform_system",
                   "platform_release", "platform_version", "platform_machine")
    C.ext("DataStore.get_data", model=get_data,
          trusted_reason="DataManager.get_data: a copy of the dict loaded from the data file (keys distinct; " + B + ")")
    for nm in ("mpf_version", "mpf_extended_version"):
        C.globals[nm] = VStr(z3.String("const_" + nm))
    for nm in ("python_version", "platform", "system", "release", "version", "platform_machine"):
        C.globals[nm] = VFn("model", model=(lambda nm_: lambda I, a, k: VStr(z3.String(I.fresh_name(nm_))))(nm))
    C.globals["system_alias"] = VFn("model", model=lambda I, a, k: VTuple([a[0], a[1], a[2]]))
    C.globals["iter"] = VFn("model", model=lambda I, a, k: a[0])

    def reloaded(I, now):
        """every stored entry that is a dict with a 'value' and whose expiry time has not passed is in the store with
        an equal value and persist on; every other entry is not restored"""
        ev = events_named(I, "get_data")
        if len(ev) != 1:
            return VBool(False)
        this = I.frames[0].env["self"].ref
        store = I.container(I.force(I.read_field(this, "machine_vars")).ref)
        nowv = I.force(now)
        out = []
        for k, settings in I.container(I.force(ev[0].args["data"]).ref).entries:
            settings = I.force(settings)
            ent = store.get(k)
            loadable = None
            if settings.tag != "dict" or _dget(I, settings, "value") is None:
                loadable = z3.BoolVal(False)
            else:
                exp = _dget(I, settings, "expire")
                if exp is None:
                    loadable = z3.BoolVal(True)
                else:
                    expired = []
                    for g_, alt in (exp.alts if isinstance(exp, VUnion) else ((z3.BoolVal(True), exp),)):
                        if alt.tag == "none":
                            continue
                        k_, t_ = I.num(alt)
                        nk, nt = I.num(nowv)
                        t_ = z3.ToReal(t_) if k_ == "int" else t_
                        nt = z3.ToReal(nt) if nk == "int" else nt
                        expired.append(z3.And(g_, t_ != 0, t_ < nt))
                    loadable = z3.Not(z3.Or(*expired)) if expired else z3.BoolVal(True)
            if ent is None:
                out.append(z3.Not(loadable))
            else:
                out.append(z3.And(loadable, I.eq(_dget(I, ent, "value"), _dget(I, settings, "value")),
                                  I.truth(_dget(I, ent, "persist"))))

        return VBool(z3.And(*out) if out else z3.BoolVal(True))
    C.helpers["reloaded"] = reloaded

    def reload_announced(I):
        """every restored variable whose value is not None is announced: machine_var_<name> is posted with that value
        (boot starts from an empty store, so the previous value is None and every such value is a change)"""
        this = I.frames[0].env["self"].ref
        store = I.container(I.force(I.read_field(this, "machine_vars")).ref)
        posts = events_named(I, "post")
        out = []
        for k, ent in store.entries:
            val = _dget(I, I.force(ent), "value")
            if val is None:
                return VBool(False)
            kt = z3.StringVal(k) if isinstance(k, str) else I.force(k).t
            want = VStr(z3.Concat(z3.StringVal("machine_var_"), kt))
            hit = [z3.And(I.eq(e.args["event"], want), I.eq(e.args["kwargs"].get("value", NONE), val)) for e in posts]
            out.append(z3.Or(I.eq(val, NONE), *hit))
        return VBool(z3.And(*out) if out else z3.BoolVal(True))
    C.helpers["reload_announced"] = reload_announced

    # ---- variables declared in the machine config (machine_vars: section) at boot
    C.cls("ConfigValidatorI", fields={})
    C.ext("ConfigValidatorI.validate_config", model=lambda I, env, a, k: a[1],
          trusted_reason="ConfigValidator.validate_config (C12): returns the validated section")
    C.globals["copy"] = VFn("module", name="copy")
    C.globals["copy.deepcopy"] = VFn("model", model=lambda I, a, k: a[0])
    C.globals["Util"] = VCls("Util")

    def convert(I, a, k):
        v = I.fresh(Scalar, I.fresh_name("initial_value"))
        I.__dict__.setdefault("c15_initial", []).append(v)
        return v
    C.globals["Util.convert_to_type"] = VFn("model", model=convert)

    def declared(I, name):
        """one variable declared in the config; its name may or may not be a key of the store"""
        this = I.frames[0].env["self"].ref
        store = I.container(I.force(I.read_field(this, "machine_vars")).ref)
        keys = [k for k, _ in store.entries]
        which = I.ctx.fork(len(keys) + 1)
        key = keys[which] if which < len(keys) else VStr(z3.String(name + ".declared_name"))
        if which == len(keys):
            for k in keys:
                I.ctx.assume(key.t != k.t)
        I.__dict__["c15_declared"] = (key, which < len(keys))
        el = I.new_dict([("initial_value", I.fresh(Scalar, name + ".initial_value")), ("value_type", VStr("int")),
                         ("persist", I.fresh(Bool, name + ".persist"))], name + "[decl]")
        return I.new_dict([(key, el)], name)
    MACHINE_DECL = ObjS("MachineController", config=Rec(mpf=Rec(save_machine_vars_to_disk=Bool),
                                                        machine_vars=Init(declared)),
                        clock=ObjS("Clock"), events=ObjS("EventManager"), monitors=Rec(machine_vars=Seq(Fn)),
                        config_validator=ObjS("ConfigValidatorI"))

    def declared_ok(I):
        this = I.frames[0].env["self"].ref
        key, was_there = I.__dict__["c15_declared"]
        store = I.container(I.force(I.read_field(this, "machine_vars")).ref)
        ent = store.get(key)
        if ent is None:
            return VBool(False)
        cfg = I.container(I.force(I.read_field(I.force(I.read_field(I.force(I.read_field(this, "machine")).ref,
                                                                    "config")).ref, "machine_vars")).ref).get(key)
        persist_cfg = _dget(I, cfg, "persist")
        cs = [I.eq(_dget(I, ent, "persist"), persist_cfg)]
        if was_there:
            old_store = I.container(I.force(I.read_field(this, "machine_vars", heap=I.old_heap)).ref, heap=I.old_heap)
            old_ent = old_store.get(key)
            old_val = I.container(I.force(old_ent).ref, heap=I.old_heap).get("value")
            cs.append(same_scalar(I, _dget(I, ent, "value"), old_val))
        else:
            inits = I.__dict__.get("c15_initial", [])
            if len(inits) != 1:
                return VBool(False)
            cs.append(same_scalar(I, _dget(I, ent, "value"), inits[0]))
        return VBool(z3.And(cs))

    def same_scalar(I, a, b):
        """equal value AND equal type tag (0, '', False and None are different values)"""
        aa = a.alts if isinstance(a, VUnion) else ((z3.BoolVal(True), I.force(a)),)
        bb = b.alts if isinstance(b, VUnion) else ((z3.BoolVal(True), I.force(b)),)
        cs = []
        for g1, x in aa:
            for g2, y in bb:
                if x.tag == y.tag:
                    cs.append(z3.And(g1, g2, I.eq(x, y) if x.tag != "none" else z3.BoolVal(True)))
        return z3.Or(cs + [z3.BoolVal(False)])
    C.helpers["declared_variable_ok"] = declared_ok
    C.trace_helpers |= {"declared_variable_ok"}
    C.fn("MachineVariables._load_initial_machine_vars#decl", file=MV, qualname="MachineVariables._load_initial_machine_vars",
         params=dict(self=ObjS("MachineVariables", machine=MACHINE_DECL)),
         loops={0: LoopSpec(invariant=[], unroll=True)},
         ensures=[("P4: a variable declared in the machine config keeps the value that was reloaded from disk - WHATEVER it "
                   "is (0, '', False included); only a variable that was not reloaded gets the configured initial value; "
                   "its persist flag is the configured one", "declared_variable_ok()")],
         modifies=["self.machine_vars.**"], raises={}, skip_frame=True, bounded=B, inline_calls=False)

    def expiry_kept(I):
        """a restored variable keeps the expiry time it was stored with: the next write puts the same expiry on disk
        again, so a LATER boot after that time still drops the variable ("unless their expiry time has passed")"""
        ev = events_named(I, "get_data")
        if len(ev) != 1:
            return VBool(False)
        this = I.frames[0].env["self"].ref
        store = I.container(I.force(I.read_field(this, "machine_vars")).ref)
        out = []
        for k, settings in I.container(I.force(ev[0].args["data"]).ref).entries:
            settings = I.force(settings)
            ent = store.get(k)
            if ent is None or settings.tag != "dict":
                continue
            exp = _dget(I, settings, "expire")
            if exp is None:
                continue
            timeout = _dget(I, ent, "timeout")
            has_exp = z3.And(z3.Not(I.is_none(exp)), z3.Not(I.eq(exp, VInt(0))))
            out.append(z3.Implies(has_exp, I.eq(timeout, exp) if timeout is not None else z3.BoolVal(False)))
        return VBool(z3.And(*out) if out else z3.BoolVal(True))
    C.helpers["expiry_kept"] = expiry_kept
    C.fn("MachineVariables._load_initial_machine_vars", inline=True)
    C.fn("MachineVariables.load_machine_vars", params=dict(machine_var_data_manager=ObjS("DataStore"), current_time=Real),
         requires=[("boot: the store is empty", "len(self.machine_vars) == 0"),
                   ("no variables are declared in the machine config (their persist flag would override)",
                    "'machine_vars' not in self.machine.config")],
         ensures=[("P3: persisted variables reload with equal values unless their expiry time has passed; expired "
                   "or malformed entries are not restored", "reloaded(current_time)"),
                  ("P3c: every restored value is announced like any other change (machine_var_<name> with the value): a "
                   "template or setting that subscribed before the load - the light controller's brightness, for one - must "
                   "not keep the value from before it", "reload_announced()"),
                  ("P3b: a reloaded variable keeps the expiry time it was stored with (otherwise the next write stores it "
                   "without one and it survives every later boot)", "expiry_kept()")],
         modifies=["self.machine_vars.**", "self.machine_var_data_manager"], raises={}, bounded=B)


def build():
    C = ContractSet("C15", "Persistent data is durable, never torn, and survives write failures")
    C.strings = True
    C.finite_checks.append(common.native_demo_check(
        "c15_snapshot_of_live_dict_fails.py",
        "a save whose snapshot fails (the owner changes the live dict while it is copied) does not stop later saves"))
    C.finite_checks.append(path_model_check)
    C.finite_checks.append(common.native_demo_check(
        'c15_rate_limited_save_lost_at_shutdown.py',
        'a save that is still rate-limited at a clean shutdown is on disk after the process has exited'))
    C.finite_checks.append(native_check)
    C.ghost.update(dict(fs=MapS(Str, Int), faults=Int, stopped=Bool))
    CONTENT = z3.Function("content", usort("Data"), z3.IntSort())

    def fs_c(I, heap=None):
        return I.container(I.force(I.read_field(I.ghost, "fs", heap=heap)).ref, heap=heap)

    def fs_get(I, p):
        return z3.Select(fs_c(I).arr, p)

    def fs_set(I, p, v, what):
        c = fs_c(I)
        ref = I.force(I.read_field(I.ghost, "fs")).ref
        I.set_container(ref, DMap(z3.Store(c.arr, p, v), c.dom, c.kshape, c.vshape))
        emit(I, "fs", path=VStr(p), content=VInt(v), what=what)

    def fault(I):
        f = I.force(I.read_field(I.ghost, "faults")).t
        I.write_field(I.ghost, "faults", VInt(f + 1))

    def content_of(I, d):
        d = I.force(d)
        if d.tag != "opaque":
            raise Unsupported("content of %r" % d)
        t = CONTENT(d.t)
        I.ctx.assume(t > 0)
        return t
    C.helpers["fs_at"] = lambda I, p: VInt(fs_get(I, I.force(p).t))
    C.helpers["content"] = lambda I, d: VInt(content_of(I, d))

    def never_torn(I, filename, old, data):
        """after every file-system step of the call the target holds the old version or the complete new one"""
        f, v = I.force(filename).t, I.force(old).t
        new = content_of(I, data)
        conj = []
        for e in events_named(I, "fs"):
            v = z3.If(I.force(e.args["path"]).t == f, I.force(e.args["content"]).t, v)
            conj.append(z3.Or(v == I.force(old).t, v == new))
        return VBool(z3.And(*conj) if conj else z3.BoolVal(True))
    C.helpers["never_torn"] = never_torn
    C.helpers["n_fs_steps"] = lambda I: VInt(len(events_named(I, "fs")))
    C.trace_helpers = {"never_torn", "n_fs_steps", "n_saves", "saved_after_clear"}

    # ------------------------------------------------------------------ library (A-LIB)
    C.cls("FileInterface", fields={})

    def iface_save(I, env, a, k):
        p, d = I.force(a[0]).t, a[1]
        fs_set(I, p, z3.IntVal(TORN), "write:partial")
        if I.ctx.fork(2) == 1:
            fault(I)
            I.raise_("OSError", "write failed")
        fs_set(I, p, content_of(I, d), "write:complete")
        return NONE
    C.ext("FileInterface.save", model=iface_save,
          trusted_reason="A-LIB: YamlInterface/PickleInterface.save writes only the path it is given; the file is torn "
                         "until the call returns; may raise at any point")
    C.cls("InterfaceTable", fields={})

    def table_get(I, env, a, k):
        if I.ctx.fork(2) == 1:
            fault(I)
            I.raise_("KeyError", "no interface")
        return VOpaque("FileInterface", z3.Const(I.fresh_name("iface"), usort("FileInterface")))
    C.ext("InterfaceTable.__getitem__", model=table_get, trusted_reason="dict lookup by extension (may miss)")
    C.ext("InterfaceTable.__setitem__", model=common.noop, trusted_reason="dict store")
    C.globals["YamlInterface"] = VFn("model", model=lambda I, a, k: VOpaque(
        "FileInterface", z3.Const(I.fresh_name("yaml"), usort("FileInterface"))))
    C.globals["PickleInterface"] = VFn("model", model=lambda I, a, k: VOpaque(
        "FileInterface", z3.Const(I.fresh_name("pickle"), usort("FileInterface"))))

    def os_replace(I, a, k):
        src, dst = I.force(a[0]).t, I.force(a[1]).t
        if I.ctx.fork(2) == 1:
            fault(I)
            I.raise_("OSError", "replace failed")
        v = fs_get(I, src)
        fs_set(I, dst, v, "replace:target")
        if not I.ctx.branch(src == dst):
            fs_set(I, src, z3.IntVal(ABSENT), "replace:source")
        return NONE

    def split_path(I, f):
        """f = head + base, base has no '/', head is empty or ends with '/'; dirname = head without its trailing
        slashes unless head is all slashes (posixpath; the finite check compares this with the real functions)"""
        key = ("split", f.get_id())
        memo = I.ctx.__dict__.setdefault("_c15_split", {})
        if key in memo:
            return memo[key]
        n = I.fresh_name("p")
        H, B, D, S = (z3.String("%s.%s" % (n, x)) for x in ("head", "base", "dir", "slashes"))
        slash = z3.StringVal("/")
        allsl = z3.InRe(H, z3.Star(z3.Re(slash)))
        I.ctx.assume(z3.And(f == z3.Concat(H, B), z3.Not(z3.Contains(B, slash)),
                            z3.Or(H == z3.StringVal(""), z3.SuffixOf(slash, H)),
                            z3.If(allsl, D == H,
                                  z3.And(H == z3.Concat(D, S), z3.InRe(S, z3.Plus(z3.Re(slash))),
                                         z3.Not(z3.SuffixOf(slash, D)), z3.Length(D) > 0))))
        memo[key] = (D, B)
        return memo[key]

    def splitext(I, a, k):
        f = I.force(a[0]).t
        n = I.fresh_name("se")
        r, e = z3.String(n + ".root"), z3.String(n + ".ext")
        I.ctx.assume(f == z3.Concat(r, e))
        return VTuple([VStr(r), VStr(e)])
    C.globals["os"] = VFn("module", name="os")
    C.globals["os.path"] = VFn("module", name="os.path")
    C.globals["os.sep"] = VStr("/")
    C.globals["os.replace"] = VFn("model", model=os_replace)
    C.globals["os.path.dirname"] = VFn("model", model=lambda I, a, k: VStr(split_path(I, I.force(a[0]).t)[0]))
    C.globals["os.path.basename"] = VFn("model", model=lambda I, a, k: VStr(split_path(I, I.force(a[0]).t)[1]))
    C.globals["os.path.splitext"] = VFn("model", model=splitext)
    C.assume("A-LIB os.replace(a, b) is atomic: it either raises with nothing changed or b holds a's complete "
             "content; posix path syntax (os.sep == '/'); durability of the rename across power loss (fsync) is not "
             "modelled")

    # ------------------------------------------------------------------ FileManager
    FMS = ObjS("FileManager", is_busy=Bool, initialized=Bool, file_interfaces=ObjS("InterfaceTable"))
    C.cls("FileManager", file=FM, fields=FMS.fields)
    C.globals["FileManager"] = VObj(Obj("FileManager", FMS, "FileManager"))
    C.fn("FileManager.init", inline=True)
    C.fn("FileManager.save", params=dict(filename=Str, data=DATA),
         requires=[("the target currently holds a complete version (or does not exist)", "fs_at(filename) >= 0")],
         ensures=[
             ("the file now holds exactly the data handed in", "fs_at(filename) == content(data)"),
             ("never torn: after every file-system step the target is the complete old or the complete new version",
              "never_torn(filename, old(fs_at(filename)), data)"),
             ("the global busy flag is released", "not FileManager.is_busy"),
             ("no fault was recorded", "ghost.faults == old(ghost.faults)"),
         ],
         raises={"AssertionError": True, "Exception": True},
         ensures_exc=[
             ("a failed save leaves the complete old version in place", "fs_at(filename) == old(fs_at(filename))"),
             ("never torn, also when the write fails half way",
              "never_torn(filename, old(fs_at(filename)), data)"),
             ("a failed write does not block later writers: the busy flag is released on every exit",
              "not FileManager.is_busy"),
             ("a failure is a recorded fault", "ghost.faults > old(ghost.faults)"),
         ],
         modifies=["FileManager.is_busy", "FileManager.initialized", "ghost.fs", "ghost.faults"],
         emits=lambda I, env, res: None)

    # ------------------------------------------------------------------ DataManager
    C.cls("ThreadEvent", fields=dict(flag=Bool))
    C.cls("Stopper", fields=dict(flag=Bool))

    def rely(I):
        """another thread runs between two statements of the writer (see module docstring)"""
        saved_mod = I.modified
        I.modified = set()
        try:
            _rely(I)
        finally:
            I.rely_modified |= I.modified
            I.modified = saved_mod

    def _rely(I):
        this = I.frames[0].env["self"].ref
        fm = C.globals["FileManager"].ref
        I.havoc_field(fm, "is_busy")
        I.rely_modified.add((fm, "is_busy"))
        stopper = I.force(I.read_field(I.force(I.read_field(this, "machine")).ref, "thread_stopper")).ref
        st0 = I.force(I.read_field(stopper, "flag")).t
        I.havoc_field(stopper, "flag")
        I.rely_modified.add((stopper, "flag"))
        I.ctx.assume(z3.Implies(st0, I.force(I.read_field(stopper, "flag")).t))
        stopped = I.force(I.read_field(I.ghost, "stopped")).t
        dirty = I.force(I.read_field(this, "_dirty")).ref
        d0 = I.force(I.read_field(this, "data")).t
        f0 = I.force(I.read_field(dirty, "flag")).t
        I.havoc_field(this, "data")
        I.havoc_field(dirty, "flag")
        I.rely_modified.add((this, "data"))
        I.rely_modified.add((dirty, "flag"))
        d1 = I.force(I.read_field(this, "data")).t
        f1 = I.force(I.read_field(dirty, "flag")).t
        I.ctx.assume(z3.Or(z3.And(d1 == d0, f1 == f0), z3.And(f1, z3.Not(stopped))))

    def ev_wait(I, env, a, k):
        rely(I)
        return I.read_field(env["self"].ref, "flag")

    def ev_is_set(I, env, a, k):
        rely(I)
        return I.read_field(env["self"].ref, "flag")

    def ev_clear(I, env, a, k):
        rely(I)
        I.write_field(env["self"].ref, "flag", VBool(False))
        emit(I, "dirty.clear")
        return NONE

    def ev_set(I, env, a, k):
        I.write_field(env["self"].ref, "flag", VBool(True))
        emit(I, "dirty.set")
        return NONE

    def stop_is_set(I, env, a, k):
        rely(I)
        v = I.read_field(env["self"].ref, "flag")
        if I.ctx.branch(I.force(v).t):
            I.write_field(I.ghost, "stopped", VBool(True))
            return VBool(True)
        return VBool(False)
    T = "threading.Event (A-THREAD): wait/is_set return the flag; every call is a point where other threads run (rely)"
    C.ext("ThreadEvent.wait", model=ev_wait, trusted_reason=T)
    C.ext("ThreadEvent.is_set", model=ev_is_set, trusted_reason=T)
    C.ext("ThreadEvent.clear", model=ev_clear, trusted_reason=T)
    C.ext("ThreadEvent.set", model=ev_set, trusted_reason=T)
    C.ext("Stopper.is_set", model=stop_is_set, trusted_reason=T)
    C.globals["time"] = VFn("module", name="time")
    C.globals["time.sleep"] = VFn("model", model=lambda I, a, k: (rely(I), NONE)[1])
    C.globals["copy"] = VFn("module", name="copy")

    def deepcopy(I, a, k):
        in_writer = "self" in I.frames[0].env and I.frames[0].fc.key == "DataManager._writing_thread"
        rely(I) if in_writer else None
        if in_writer and I.ctx.fork(2) == 1:
            # the snapshot itself can fail: the owner mutates the live dict while it is copied (RuntimeError: dictionary
            # changed size during iteration), or the data is nested too deeply (RecursionError)
            I.write_field(I.ghost, "faults", VInt(I.force(I.read_field(I.ghost, "faults")).t + 1))     # like a failed write
            I.raise_("RuntimeError", "deepcopy of the live data failed")
        v = I.force(a[0])
        emit(I, "deepcopy", data=v)
        return v
    C.globals["copy.deepcopy"] = VFn("model", model=deepcopy)
    C.cls("MpfController", fields={})
    C.cls("DataManager", file=DM, bases=["MpfController"], fields=dict(
        name=Str, min_wait_secs=Int, filename=Str, data=DATA, _dirty=ObjS("ThreadEvent"),
        machine=ObjS("MachineController", thread_stopper=ObjS("Stopper"))))
    C.fn("DataManager._trigger_save", inline=True)
    C.fn("DataManager.save_all", params=dict(data=DATA),
         ensures=[("the data handed in is the latest data", "self.data == data"),
                  ("and a write is pending", "self._dirty.flag")],
         modifies=["self.data", "self._dirty.flag"], raises={})

    SYNC = "self._dirty.flag or ghost.faults > 0 or fs_at(self.filename) == content(self.data)"
    C.fn("DataManager._writing_thread",
         requires=[("at thread start the file holds the loaded data or a write is pending", SYNC),
                   ("the file is complete", "fs_at(self.filename) >= 0"),
                   ("no shutdown yet", "not ghost.stopped"), ("fault counter", "ghost.faults >= 0")],
         loops={0: LoopSpec(invariant=[
                    ("D1: whenever no write is pending (and no write has failed) the file holds the latest data", SYNC),
                    ("the file is never torn", "fs_at(self.filename) >= 0"),
                    ("no shutdown seen yet", "not ghost.stopped"), ("fault counter", "ghost.faults >= 0")],
                    modifies=["ghost.fs", "ghost.faults", "FileManager.is_busy", "FileManager.initialized",
                              "self._dirty.flag", "self.data", "self.machine.thread_stopper.flag"]),
                1: LoopSpec(invariant=[], modifies=[]),
                2: LoopSpec(invariant=[], modifies=[])},
         loops_by_text={"FileManager.is_busy": LoopSpec(invariant=[], modifies=[])},
         ensures=[
             ("D2 shutdown flush: after a clean shutdown the file holds exactly the data last saved "
              "(unless a write failed)",
              "ghost.faults > 0 or fs_at(self.filename) == content(self.data)"),
             ("the file is complete", "fs_at(self.filename) >= 0"),
         ],
         raises={"Exception": True},
         ensures_exc=[("D3: a failed write - or a failed snapshot of the data - inside the loop never ends the thread (every "
                       "later save, the shutdown flush included, would silently be dropped): an exception can escape only "
                       "from the final flush", "ghost.stopped")],
         # self.data and the stop flag are changed by the environment only (rely), listed because the loop havocs them
         modifies=["ghost.fs", "ghost.faults", "ghost.stopped", "FileManager.is_busy", "FileManager.initialized",
                   "self._dirty.flag", "self.data", "self.machine.thread_stopper.flag"])
    # ---- boot: loading never writes
    C.ext("DataManager._make_sure_path_exists", model=common.noop,
          trusted_reason="os.makedirs of the data directory (creates directories only)")
    C.ext("DataManager._load", model=lambda I, env, a, k: (emit(I, "load"), NONE)[1],
          trusted_reason="DataManager._load: FileManager.load of the data file (reads only; a torn or missing file yields "
                         "empty data)")
    C.globals["os.path.isfile"] = VFn("model", model=lambda I, a, k: VBool(z3.Bool(I.fresh_name("isfile"))))
    C.globals["os.path.join"] = VFn("model", model=lambda I, a, k: VStr(z3.Concat(
        I.force(a[0]).t, z3.StringVal("/"), I.force(a[1]).t)))
    C.helpers["n_loads"] = lambda I: VInt(len(events_named(I, "load")))
    C.trace_helpers |= {"n_loads"}
    C.fn("DataManager._setup_file",
         ensures=[("D0: booting never WRITES the data file: whatever is lying around in the data directory (a temp file "
                   "left by a crash in the middle of a save may be torn), the complete file on disk is what gets loaded "
                   "and stays as it is", "n_fs_steps() == 0 and n_loads() == 1")],
         modifies=[], raises={})
    machine_vars_part(C, 'slice')
    C.assume("A-THREAD the writer thread is checked sequentially under a rely (other threads: save_all, busy flag, "
             "stop flag; they never clear the dirty flag nor write this manager's file); statement-level "
             "interleavings inside save_all / FileManager.save are not explored")
    C.assume("A-SHUTDOWN clean shutdown: no save_all is issued after the writer thread has seen the stop flag, and "
             "the process lives until the thread returns (the thread is started with _thread.start_new_thread and "
             "is not joined: that race is outside what a contract can decide)")
    return C


SETC = "mpf/core/settings_controller.py"


def settings_set():
    """operator settings are machine variables: changing a setting always marks its variable persistent before writing
    it - also when the variable already existed as a plain (non-persistent) one - so the change survives a reboot"""
    C = ContractSet("C15s", "a changed setting is persisted")
    C.strings = False
    C.cls("MpfController", fields={})
    C.cls("VarsI", fields={})
    C.ext("VarsI.configure_machine_var",
          model=lambda I, env, a, k: (emit(I, "configure", name=k.get("name", a[0] if a else NONE),
                                           persist=k.get("persist", a[1] if len(a) > 1 else NONE)), NONE)[1],
          trusted_reason="MachineVariables.configure_machine_var (main set): sets the persist flag")
    C.ext("VarsI.set_machine_var",
          model=lambda I, env, a, k: (emit(I, "set", name=k.get("name", a[0] if a else NONE),
                                           value=k.get("value", a[1] if len(a) > 1 else NONE)), NONE)[1],
          trusted_reason="MachineVariables.set_machine_var (main set, P1): hands a persisted variable to the data manager")
    C.ext("VarsI.is_machine_var", model=lambda I, env, a, k: VBool(z3.Bool(I.fresh_name("is_machine_var"))),
          trusted_reason="MachineVariables.is_machine_var")
    C.ext("VarsI.get_machine_var", model=lambda I, env, a, k: VOpaque("Any", z3.Const(I.fresh_name("mv"), usort("Any"))),
          trusted_reason="MachineVariables.get_machine_var")
    C.cls("SettingEntry", fields=dict(machine_var=Str, values=Init(lambda I, n: I.new_dict(((1, VStr("a")), (2, VStr("b"))), n))))

    def settings(I, name):
        return I.new_dict((("known", I.fresh(ObjS("SettingEntry"), name + "[known]")),), name)
    C.cls("SettingsController", file=SETC, bases=["MpfController"], fields=dict(
        _settings=Init(settings), machine=ObjS("MachineController", variables=ObjS("VarsI"))))

    def persisted_then_set(I, value):
        tr = [e for e in I.cur_trace() if e.name in ("configure", "set")]
        if [e.name for e in tr] != ["configure", "set"]:
            return VBool(False)
        this = I.frames[0].env["self"].ref
        ent = I.container(I.force(I.read_field(this, "_settings")).ref).get("known")
        mv = I.read_field(I.force(ent).ref, "machine_var")
        return VBool(z3.And(I.eq(tr[0].args["name"], mv), I.truth(tr[0].args["persist"]), I.eq(tr[1].args["name"], mv),
                            I.eq(tr[1].args["value"], value)))
    C.helpers["persisted_then_set"] = persisted_then_set
    C.trace_helpers = {"persisted_then_set"}
    C.fn("SettingsController.set_setting_value",
         params=dict(setting_name=Union(Const("known"), Const("unknown_setting")), value=Union(Const(1), Const(2), Const(3))),
         ensures=[("ST1: a valid change of a setting ALWAYS marks its machine variable persistent and then writes the new "
                   "value - whether or not the variable existed before - so the data manager gets it and it survives a "
                   "reboot", "persisted_then_set(value)")],
         modifies=[], raises={"AssertionError": "setting_name != 'known' or value == 3"})
    return C


def build_extra():
    """the whole-store machine-variable functions on small concrete stores (bounded, never counted as proved)"""
    C = ContractSet("C15", "machine variables: whole-store functions (bounded)")
    C.strings = True
    machine_vars_part(C, "small")
    C.only_verify = ["MachineVariables._write_machine_vars_to_disk", "MachineVariables.load_machine_vars",
                     "MachineVariables._load_initial_machine_vars#decl"]
    return [C, settings_set()]
