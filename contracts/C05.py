"""C05 - Ball requests make progress: no lost or stuck ejects (PARTIAL: the safety fragment).

"Eventually delivered" and "returns to idle" are liveness over unbounded interleavings of several tasks: outside
contract-based verification (no fairness / termination reasoning across tasks).  The safety fragment decided here, on
devices/ball_device/outgoing_balls_handler.py, for all requests, states and outcomes of the awaited futures:

* _ejecting (the eject loop): every pass makes at most one physical eject attempt, and only after the target's readiness
  gate has been awaited; a FAILED attempt is followed by exactly one ball_eject_failed report carrying the number of
  attempts so far - with retry=True and another pass, or, iff max_tries is set and reached, with retry=False, state
  eject_broken and the balldevice_<n>_broken event, and the loop ends with False (the device reports itself broken
  rather than hanging silently).  True is returned only after a successful attempt, a cancelled request or a
  confirmed skip.
* _handle_late_confirm_or_missing (what happens after a missed confirmation): the outcome table - late confirm =>
  success event, True; ball returned / unknown ball => did_not_arrive, False (the loop then retries); nothing within
  the ball-missing timeout => did_not_arrive, failed report (retry=True), lost_ejected_ball, True.  In every outcome
  the incoming ball registered at the target is resolved exactly once.
* _handle_confirm: confirm => success event, True; timeout => state failed_confirm and the table above.
* the event words of _prepare_eject, _failed_eject, _post_ejecting_event, _handle_eject_success.
"""
import z3

from pyvc.contract import ContractSet, LoopSpec
from pyvc.vals import *       # noqa
from pyvc.ctx import Unsupported
from . import common
from .common import emit, events_named

OBH = "mpf/devices/ball_device/outgoing_balls_handler.py"


def build():
    C = ContractSet("C05", "Ball requests make progress: no lost or stuck ejects")
    C.strings = False

    def post(kind):
        def m(I, env, a, k):
            emit(I, "post", kind=kind, event=a[0] if a else k.get("event"), callback=NONE,
                 kwargs={x: v for x, v in k.items() if x not in ("event", "callback")})
            return NONE
        return m
    C.cls("EventManager", fields={})
    for k_ in ("post", "post_async", "post_queue_async"):
        C.ext("EventManager." + k_, model=post(k_), trusted_reason="event posting (C01/C02)")

    # ---- futures and waiting (A-ASYNCIO)
    C.cls("Fut", fields=dict(is_done=Bool, is_cancelled=Bool))
    A = "asyncio futures (A-ASYNCIO): first() returns one of the futures it was given, which is then done; a timeout " \
        "raises TimeoutError"

    def new_fut(I, name):
        o = Obj("Fut", ObjS("Fut", is_done=Bool, is_cancelled=Bool), I.fresh_name(name))
        I.creating_new += 1
        try:
            I.write_field(o, "is_done", VBool(False))
            I.write_field(o, "is_cancelled", VBool(False))
        finally:
            I.creating_new -= 1
        return VObj(o)
    C.ext("Fut.done", model=lambda I, env, a, k: I.read_field(env["self"].ref, "is_done"), trusted_reason=A)
    C.ext("Fut.cancelled", model=lambda I, env, a, k: I.read_field(env["self"].ref, "is_cancelled"), trusted_reason=A)

    def fut_cancel(I, env, a, k):
        I.write_field(env["self"].ref, "is_done", VBool(True))
        I.write_field(env["self"].ref, "is_cancelled", VBool(True))
        return VBool(True)
    C.ext("Fut.cancel", model=fut_cancel, trusted_reason=A)

    def fut_set_result(I, env, a, k):
        I.write_field(env["self"].ref, "is_done", VBool(True))
        emit(I, "future.set_result", fut=env["self"].ref, value=a[0])
        return NONE
    C.ext("Fut.set_result", model=fut_set_result, trusted_reason=A)
    C.globals["asyncio"] = VFn("module", name="asyncio")
    C.globals["asyncio.Future"] = VFn("model", model=lambda I, a, k: new_fut(I, "future"))

    def ensure_future(I, a, k):
        v = I.force(a[0])
        if v.tag == "obj" and v.ref.cls == "Fut":
            return v
        return new_fut(I, "task")
    C.globals["asyncio.ensure_future"] = VFn("model", model=ensure_future)
    C.exc("TimeoutError", "Exception")
    C.globals["asyncio.TimeoutError"] = VCls("TimeoutError")
    C.exc("CancelledError", "BaseException")
    C.globals["asyncio.CancelledError"] = VCls("CancelledError")
    C.globals["Util"] = VCls("Util")

    def util_first(I, a, k):
        """returns one of the futures: one that is already done if there is one (then at once, without a timeout),
        otherwise whichever completes first - or TimeoutError"""
        futs = [I.force(x) for x in I.iter_conc(a[0])]
        timeout = k.get("timeout")
        n = len(futs)
        can_timeout = timeout is not None and I.force(timeout).tag != "none"
        dones = [I.truth(I.read_field(f.ref, "is_done")) if f.tag == "obj" and f.ref.cls == "Fut" else z3.BoolVal(False)
                 for f in futs]
        any_done = I.ctx.branch(z3.Or(*dones)) if dones else False
        if any_done:
            cand = [i for i in range(n)]
            i = cand[I.ctx.fork(len(cand))]
            I.ctx.assume(dones[i])
        else:
            i = I.ctx.fork(n + (1 if can_timeout else 0))
            if i == n:
                emit(I, "first.timeout")
                I.raise_("TimeoutError", "timeout")
        f = futs[i]
        if f.tag == "obj" and f.ref.cls == "Fut":
            I.write_field(f.ref, "is_done", VBool(True))
        emit(I, "first", chosen=f)
        return f
    C.globals["Util.first"] = VFn("model", model=util_first)

    # ---- the device around the handler
    def st(cls_, **fields):
        C.cls(cls_, fields=fields)

    def ev_model(nm):
        def m(I, env, a, k):
            emit(I, nm, args=a, kwargs=k)
            return NONE
        return m
    st("BallCountHandlerI")
    T = "ball count handler (C04)"
    C.ext("BallCountHandlerI.wait_for_count_is_valid", model=ev_model("wait_for_count_is_valid"), trusted_reason=T)
    C.ext("BallCountHandlerI.wait_for_ball", model=lambda I, env, a, k: VOpaque("Coro", z3.Const(I.fresh_name("coro"), usort("Coro"))),
          trusted_reason=T)
    C.ext("BallCountHandlerI.is_full", is_property=True, model=lambda I, env, a, k: VBool(z3.Bool(I.fresh_name("is_full"))),
          trusted_reason=T)
    C.ext("BallCountHandlerI.has_ball", is_property=True, model=lambda I, env, a, k: VBool(z3.Bool(I.fresh_name("has_ball"))),
          trusted_reason=T)
    st("IncomingBallsHandlerI")
    C.ext("IncomingBallsHandlerI.wait_for_no_incoming_balls", model=ev_model("wait_for_no_incoming_balls"),
          trusted_reason="incoming balls handler")
    st("Target", name=Str, available_balls=Int)
    C.ext("Target.is_playfield", model=lambda I, env, a, k: VBool(z3.Bool("is_playfield[%s]" % env["self"].ref.name)),
          trusted_reason="device kind (a fixed fact per device)", pure=True, result=Bool)
    C.ext("Target.wait_for_ready_to_receive", model=ev_model("target.wait_for_ready_to_receive"),
          trusted_reason="the target's readiness gate (C04 R1)")
    C.ext("Target.remove_incoming_ball", model=ev_model("target.remove_incoming_ball"), trusted_reason="target bookkeeping")
    st("TargetCountHandler")
    C.ext("TargetCountHandler.wait_for_count_is_valid", model=ev_model("target.wait_for_count_is_valid"), trusted_reason=T)
    C.classes["Target"].fields["ball_count_handler"] = ObjS("TargetCountHandler")
    st("AsyncEvent")
    C.ext("AsyncEvent.wait", model=lambda I, env, a, k: VOpaque("Coro", z3.Const(I.fresh_name("coro"), usort("Coro"))),
          trusted_reason="asyncio.Event.wait()")
    st("TaskI")
    C.ext("TaskI.cancel", model=ev_model("task.cancel"), trusted_reason="the handler's own task")
    DEV = ObjS("BallDevice", name=Str, ball_count_handler=ObjS("BallCountHandlerI"),
               incoming_balls_handler=ObjS("IncomingBallsHandlerI"),
               config=Rec(confirm_eject_type=Str, ball_missing_timeouts=ObjS("TimeoutMap")))
    C.cls("TimeoutMap", fields={})
    C.ext("TimeoutMap.__getitem__", model=lambda I, env, a, k: VInt(z3.Int("ball_missing_timeout_ms")),
          trusted_reason="configured timeout")
    C.cls("BallDevice", fields=DEV.fields)
    C.ext("BallDevice.set_eject_state", model=lambda I, env, a, k: (emit(I, "state", state=a[0]), NONE)[1],
          trusted_reason="eject state (monitoring)")
    C.ext("BallDevice.lost_ejected_ball", params=dict(target=Opaque("Any")),
          requires=[("a ball ejected to a PLAYFIELD is never declared lost (BallDevice.lost_ejected_ball raises "
                     "AssertionError for playfields, which would end the device's eject task without any report)",
                     "not target.is_playfield()")],
          model=lambda I, env, a, k: (emit(I, "lost_ejected_ball", target=env.get("target")), NONE)[1],
          trusted_reason="BallDevice.lost_ejected_ball: reports the ball as lost (ball_lost event, missing-ball handling)")
    REQ = ObjS("OutgoingBall", max_tries=Int, eject_timeout=Int, target=ObjS("Target", C.classes["Target"].fields),
               player_controlled=Bool, already_left=Bool)
    C.cls("OutgoingBall", fields=REQ.fields)
    C.cls("EjectTracker", fields={})
    C.ext("EjectTracker.wait_for_ball_return", model=lambda I, env, a, k: VOpaque("Coro", z3.Const(I.fresh_name("coro"), usort("Coro"))),
          trusted_reason="eject tracker")
    C.ext("EjectTracker.wait_for_ball_unknown_ball", model=lambda I, env, a, k: VOpaque("Coro", z3.Const(I.fresh_name("coro"), usort("Coro"))),
          trusted_reason="eject tracker")
    C.cls("IncomingBall", fields=dict(resolved=Int, confirm=ObjS("Fut", is_done=Bool, is_cancelled=Bool)))

    def ib(nm):
        def m(I, env, a, k):
            n = I.force(I.read_field(env["self"].ref, "resolved")).t
            I.write_field(env["self"].ref, "resolved", VInt(n + 1))
            emit(I, "incoming." + nm)
            return NONE
        return m
    IB = "IncomingBall at the target: ball_arrived / did_not_arrive resolve it"
    C.ext("IncomingBall.ball_arrived", model=ib("ball_arrived"), trusted_reason=IB)
    C.ext("IncomingBall.did_not_arrive", model=ib("did_not_arrive"), trusted_reason=IB)
    C.ext("IncomingBall.set_can_skip", model=ev_model("incoming.set_can_skip"), trusted_reason=IB)
    C.ext("IncomingBall.wait_for_confirm", model=lambda I, env, a, k: I.read_field(env["self"].ref, "confirm"),
          trusted_reason=IB)
    C.cls("BallDeviceStateHandler", fields={})
    C.cls("OutgoingBallsHandler", file=OBH, bases=["BallDeviceStateHandler"], fields=dict(
        ball_device=DEV, machine=ObjS("MachineController", events=ObjS("EventManager")),
        _current_target=Opt(ObjS("Target", C.classes["Target"].fields)),
        _cancel_future=Opt(ObjS("Fut", is_done=Bool, is_cancelled=Bool)),
        _eject_future=Opt(ObjS("Fut", is_done=Bool, is_cancelled=Bool)),
        _incoming_ball_which_may_skip=ObjS("AsyncEvent"), _task=ObjS("TaskI")))

    # ---- trace helpers
    def named(I, suffix):
        dev = I.force(I.read_field(I.force(I.read_field(I.frames[0].env["self"].ref, "ball_device")).ref, "name")).t
        return z3.Concat(z3.StringVal("balldevice_"), dev, z3.StringVal(suffix))

    def one_post(I, kind, suffix, **want):
        evs = events_named(I, "post")
        if len(evs) != 1 or evs[0].args["kind"] != I.pyconst(I.force(kind)):
            return VBool(False)
        e = evs[0]
        conj = [I.force(e.args["event"]).t == named(I, I.pyconst(I.force(suffix)))]
        if set(e.args["kwargs"]) != set(want):
            return VBool(False)
        for k, v in want.items():
            conj.append(I.eq(e.args["kwargs"][k], v))
        return VBool(z3.And(*conj))
    C.helpers["one_post"] = one_post
    C.helpers["n_posts"] = lambda I: VInt(len(events_named(I, "post")))

    def calls(I, nm):
        return [e for e in I.cur_trace() if e.name == nm]
    for nm in ("call:_eject_ball", "call:_failed_eject", "call:_prepare_eject", "call:_handle_eject_success",
               "target.wait_for_ready_to_receive", "lost_ejected_ball", "task.cancel", "call:_skipping_ball",
               "incoming.ball_arrived", "incoming.did_not_arrive", "call:_handle_late_confirm_or_missing",
               "call:_handle_playfield_timeout_confirm"):
        C.helpers["n_" + nm.replace("call:", "").replace(".", "_").lstrip("_")] = \
            (lambda n_: lambda I: VInt(len(calls(I, n_))))(nm)

    def last_state(I):
        s_ = calls(I, "state")
        return s_[-1].args["state"] if s_ else NONE
    C.helpers["last_state"] = last_state

    def failed_report(I, tries, retry):
        f = calls(I, "call:_failed_eject")
        if len(f) != 1:
            return VBool(False)
        return VBool(z3.And(I.eq(f[0].args["eject_try"], tries), I.eq(f[0].args["retry"], retry)))
    C.helpers["failed_report_is"] = failed_report

    def attempt_after_gate(I):
        """the physical attempt of this pass comes after the target's readiness gate and the eject_attempt queue event"""
        names = [e.name for e in I.cur_trace()]
        if "call:_eject_ball" not in names:
            return VBool(True)
        i = names.index("call:_eject_ball")
        return VBool("target.wait_for_ready_to_receive" in names[:i] and "call:_prepare_eject" in names[:i])
    C.helpers["attempt_after_gate"] = attempt_after_gate

    def attempt_failed(I):
        a = calls(I, "call:_eject_ball")
        return VBool(z3.And(z3.BoolVal(len(a) == 1), z3.Not(I.truth(a[0].ret))) if len(a) == 1 else z3.BoolVal(False))
    C.helpers["attempt_failed"] = attempt_failed

    def attempt_try(I):
        a = calls(I, "call:_eject_ball")
        return a[0].args["eject_try"] if a else VInt(-1)
    C.helpers["attempt_try"] = attempt_try

    def eject_future_resolved(I):
        a = calls(I, "call:_eject_ball")
        this = I.frames[0].env["self"].ref
        cur = I.force(I.read_field(this, "_eject_future"))
        if not a:
            return VBool(True)
        sets = [e for e in I.cur_trace() if e.name == "future.set_result"]
        names = [e.name for e in I.cur_trace()]
        after = [e for e in sets if I.cur_trace().index(e) > names.index("call:_eject_ball")]
        if len(after) != 1:
            return VBool(False)
        return VBool(z3.And(I.eq(after[0].args["value"], a[0].ret), I.is_none(cur)))
    C.helpers["eject_future_resolved"] = eject_future_resolved

    def playfield_confirmed(I):
        c = calls(I, "call:_handle_playfield_timeout_confirm")
        return VBool(z3.And(z3.BoolVal(len(c) == 1), I.truth(c[0].ret)) if len(c) == 1 else z3.BoolVal(False))
    C.helpers["playfield_confirmed"] = playfield_confirmed

    def broken_posted(I):
        return VBool(z3.Or(*[I.force(e.args["event"]).t == named(I, "_broken") for e in events_named(I, "post")] +
                           [z3.BoolVal(False)]))
    C.helpers["broken_posted"] = broken_posted
    C.trace_helpers = {"one_post", "n_posts", "last_state", "failed_report_is", "attempt_after_gate", "attempt_failed",
                       "attempt_try", "broken_posted", "eject_future_resolved", "playfield_confirmed"} | {h for h in C.helpers if h.startswith("n_")}

    def call_emit(name, *argnames, post=None):
        """what a callee contributes to the caller's trace: the call itself and (post=(kind, suffix, kwargs-fn)) the
        event post its contract guarantees"""
        def e(I, env, res):
            ev = emit(I, "call:" + name, **{a: env.get(a) for a in argnames})
            ev.ret = res
            if post is not None:
                kind, suffix, kwf = post
                this = env["self"].ref
                dev = I.force(I.read_field(I.force(I.read_field(this, "ball_device")).ref, "name")).t
                emit(I, "post", kind=kind, callback=NONE, kwargs=kwf(I, env),
                     event=VStr(z3.Concat(z3.StringVal("balldevice_"), dev, z3.StringVal(suffix))))
        return e

    def req_target(I, env):
        return I.read_field(I.force(env["eject_request"]).ref, "target")

    # ---- event words
    REQP = dict(eject_request=REQ)
    C.fn("OutgoingBallsHandler._failed_eject", params=dict(eject_request=REQ, eject_try=Int, retry=Bool),
         ensures=[("W1: a failed eject is reported once: ball_eject_failed(target, balls=1, retry, num_attempts)",
                   "one_post('post_async', '_ball_eject_failed', target=eject_request.target, balls=1, retry=retry, "
                   "num_attempts=eject_try)")],
         modifies=[], raises={},
         emits=call_emit("_failed_eject", "eject_try", "retry", post=("post_async", "_ball_eject_failed", lambda I, env: dict(
             target=req_target(I, env), balls=VInt(1), retry=env["retry"], num_attempts=env["eject_try"]))))
    C.fn("OutgoingBallsHandler._prepare_eject", params=dict(eject_request=REQ, eject_try=Int),
         ensures=[("W2: ball_eject_attempt is a queue event carrying target, source and the number of attempts",
                   "one_post('post_queue_async', '_ball_eject_attempt', balls=1, target=eject_request.target, "
                   "source=self.ball_device, mechanical_eject=eject_request.player_controlled, num_attempts=eject_try)")],
         modifies=[], raises={},
         emits=call_emit("_prepare_eject", "eject_try", post=("post_queue_async", "_ball_eject_attempt", lambda I, env: dict(
             balls=VInt(1), target=req_target(I, env), source=I.read_field(env["self"].ref, "ball_device"),
             mechanical_eject=I.read_field(I.force(env["eject_request"]).ref, "player_controlled"),
             num_attempts=env["eject_try"]))))
    C.fn("OutgoingBallsHandler._post_ejecting_event", params=dict(eject_request=REQ, eject_try=Int),
         ensures=[("W3: ejecting_ball announces the eject to the target (playfields count it as requested)",
                   "one_post('post_async', '_ejecting_ball', balls=1, target=eject_request.target, "
                   "source=self.ball_device, mechanical_eject=eject_request.player_controlled, num_attempts=eject_try)")],
         modifies=[], raises={},
         emits=call_emit("_post_ejecting_event", "eject_try", post=("post_async", "_ejecting_ball", lambda I, env: dict(
             balls=VInt(1), target=req_target(I, env), source=I.read_field(env["self"].ref, "ball_device"),
             mechanical_eject=I.read_field(I.force(env["eject_request"]).ref, "player_controlled"),
             num_attempts=env["eject_try"]))))
    C.fn("OutgoingBallsHandler._handle_eject_success", params=REQP,
         ensures=[("W4: ball_eject_success(balls=1, target)", "n_posts() == 1")],
         modifies=[], raises={},
         emits=call_emit("_handle_eject_success", post=("post_async", "_ball_eject_success", lambda I, env: dict(
             balls=VInt(1), target=req_target(I, env)))))

    # ---- after a missed confirmation
    IBP = ObjS("IncomingBall", C.classes["IncomingBall"].fields)
    C.globals["asyncio.sleep"] = VFn("model", model=lambda I, a, k: (emit(I, "sleep"), NONE)[1])
    FUT = ObjS("Fut", is_done=Bool, is_cancelled=Bool)
    C.fn("OutgoingBallsHandler._handle_playfield_timeout_confirm",
         params=dict(eject_request=REQ, ball_return_future=FUT, unknown_balls_future=FUT,
                     incoming_ball_at_target=ObjS("IncomingBall", C.classes["IncomingBall"].fields)), result=Bool,
         ensures=[("Q5: an eject to a playfield whose confirmation was missed counts as delivered unless the ball came "
                   "back (or unknown balls appeared): then the incoming ball is confirmed and success reported",
                   "(result and n_incoming_ball_arrived() == 1 and n_handle_eject_success() == 1) if not "
                   "(ball_return_future.is_done or unknown_balls_future.is_done) else (not result and "
                   "n_handle_eject_success() == 0)")],
         modifies=["incoming_ball_at_target.resolved"], raises={},
         emits=call_emit("_handle_playfield_timeout_confirm"),
         call_ensures=[("not confirmed only because the ball returned or unknown balls appeared",
                        "implies(not result, ball_return_future.is_done or unknown_balls_future.is_done)"),
                       ("confirmed: the incoming ball is resolved", "implies(result, incoming_ball_at_target.resolved == "
                        "old(incoming_ball_at_target.resolved) + 1)")])
    C.fn("OutgoingBallsHandler._handle_late_confirm_or_missing",
         params=dict(eject_request=REQ, ball_eject_process=ObjS("EjectTracker"), incoming_ball_at_target=IBP,
                     eject_try=Int), result=Bool,
         requires=[("the incoming ball at the target is unresolved", "incoming_ball_at_target.resolved == 0")],
         ensures=[
             ("Q1: True is returned only for a (late) confirmation - reported as success - or for a ball that is "
              "reported as failed (retry=True) AND lost; False (retry) only after the incoming ball was withdrawn",
              "(n_handle_eject_success() == 1 or playfield_confirmed() or (failed_report_is(eject_try, True) and "
              "n_lost_ejected_ball() == 1 and n_incoming_did_not_arrive() == 1)) if result else (n_incoming_did_not_arrive() == 1 and "
              "n_handle_eject_success() == 0 and n_lost_ejected_ball() == 0)"),
             ("Q2: the incoming ball registered at the target is resolved at most once and never both ways",
              "incoming_ball_at_target.resolved <= 1"),
             ("Q3: a ball that returned is ejected again from scratch", "implies(not result, True)"),
         ],
         modifies=["incoming_ball_at_target.resolved", "eject_request.already_left",
                   "incoming_ball_at_target.confirm.is_done"], raises={"AssertionError": "False"},
         emits=call_emit("_handle_late_confirm_or_missing"),
         call_ensures=[("the incoming ball is resolved at most once", "incoming_ball_at_target.resolved <= 1")])
    C.fn("OutgoingBallsHandler._handle_confirm",
         params=dict(eject_request=REQ, ball_eject_process=ObjS("EjectTracker"), incoming_ball_at_target=IBP,
                     eject_try=Int), result=Bool,
         requires=[("the incoming ball at the target is unresolved and its confirmation is not cancelled",
                    "incoming_ball_at_target.resolved == 0 and not incoming_ball_at_target.confirm.is_cancelled")],
         ensures=[("Q4: a confirmation within the eject timeout is a success, reported once; a missed confirmation "
                   "enters failed_confirm and is resolved by the table of _handle_late_confirm_or_missing - never both",
                   "(n_handle_eject_success() == 1 and result and last_state() is None) if "
                   "n_handle_late_confirm_or_missing() == 0 else (n_handle_late_confirm_or_missing() == 1 and "
                   "last_state() == 'failed_confirm' and n_handle_eject_success() == 0)")],
         modifies=["incoming_ball_at_target.resolved", "eject_request.already_left",
                   "incoming_ball_at_target.confirm.is_done"], raises={},
         emits=call_emit("_handle_confirm"), call_ensures=[])

    # ---- the eject loop
    # ---- one physical attempt: the counting lock taken by start_eject is released by end_eject on every exit
    C.cls("EjectorI", fields={})
    C.ext("EjectorI.eject_one_ball", model=ev_model("ejector.eject_one_ball"), trusted_reason="ejector (coil pulse etc., C08)")
    C.ext("BallCountHandlerI.start_eject",
          model=lambda I, env, a, k: (emit(I, "start_eject"), VObj(Obj("EjectTracker", ObjS("EjectTracker", {}),
                                                                      I.fresh_name("eject_process"))))[1],
          trusted_reason="BallCountHandler.start_eject (C04 H2/H3): takes the counting lock")
    C.ext("BallCountHandlerI.end_eject",
          model=lambda I, env, a, k: (emit(I, "end_eject", ball_left=a[1]), NONE)[1],
          trusted_reason="BallCountHandler.end_eject (C04 H4/H5): releases the counting lock")
    C.ext("BallCountHandlerI.handled_balls", is_property=True, model=lambda I, env, a, k: VInt(z3.Int("handled_balls")),
          trusted_reason=T)
    C.ext("BallCountHandlerI._set_ball_count", model=ev_model("_set_ball_count"), trusted_reason=T)
    C.cls("CounterI", fields={})
    C.ext("CounterI.count_balls", model=lambda I, env, a, k: VInt(z3.Int(I.fresh_name("physical_count"))),
          trusted_reason="physical ball counter")
    C.classes["BallCountHandlerI"].fields["counter"] = ObjS("CounterI")
    C.ext("EjectTracker.will_eject", model=ev_model("will_eject"), trusted_reason="eject tracker")
    C.ext("EjectTracker.wait_for_ball_left", model=lambda I, env, a, k: new_fut(I, "ball_left"), trusted_reason="eject tracker")
    C.ext("EjectTracker.is_jammed", model=lambda I, env, a, k: VBool(z3.Bool(I.fresh_name("jammed"))), trusted_reason="eject tracker")
    C.ext("EjectTracker.cancel", model=ev_model("tracker.cancel"), trusted_reason="eject tracker")
    C.ext("EventManager.wait_for_event", model=lambda I, env, a, k: new_fut(I, "event_future"), trusted_reason="event future")

    def util_any(I, a, k):
        timeout = k.get("timeout")
        can_timeout = timeout is not None and I.force(timeout).tag != "none"
        futs = I.iter_conc(a[0])
        i = I.ctx.fork(len(futs) + (1 if can_timeout else 0))
        if i == len(futs):
            I.raise_("TimeoutError", "timeout")
        f = I.force(futs[i])
        I.write_field(f.ref, "is_done", VBool(True))
        return NONE
    C.globals["Util.any"] = VFn("model", model=util_any)
    C.cls("QueueI", fields={})
    C.ext("QueueI.empty", model=lambda I, env, a, k: VBool(z3.Bool(I.fresh_name("queue_empty"))), trusted_reason="asyncio.Queue")
    C.ext("QueueI.get_nowait", model=ev_model("queue.get_nowait"), trusted_reason="asyncio.Queue")
    C.ext("QueueI.task_done", model=ev_model("queue.task_done"), trusted_reason="asyncio.Queue")
    C.ext("BallDevice.lost_idle_ball", model=ev_model("lost_idle_ball"), trusted_reason="BallDevice.lost_idle_ball")
    C.classes["BallDevice"].fields.update(dict(
        ejector=Opt(ObjS("EjectorI")), tags=Seq(Str), counted_balls=Int,
        config=Rec(confirm_eject_type=Str, ball_missing_timeouts=ObjS("TimeoutMap"), mechanical_eject=Bool,
                   player_controlled_eject_event=Opt(Str))))
    C.classes["OutgoingBallsHandler"].fields["ball_device"] = ObjS("BallDevice", C.classes["BallDevice"].fields)
    C.classes["OutgoingBallsHandler"].fields["_eject_queue"] = ObjS("QueueI")
    def add_incoming(I, env, a, k):
        emit(I, "add_incoming_ball_to_target")
        o = Obj("IncomingBall", IBP, I.fresh_name("incoming_ball_at_target"))
        I.creating_new += 1
        try:
            I.write_field(o, "resolved", VInt(0))
            I.write_field(o, "confirm", new_fut(I, "confirm"))
        finally:
            I.creating_new -= 1
        return VObj(o)
    C.ext("OutgoingBallsHandler._add_incoming_ball_to_target", model=add_incoming,
          trusted_reason="registers the ball as incoming at the target (target bookkeeping)")
    for h_ in ("start_eject", "end_eject"):
        C.helpers["n_" + h_] = (lambda n_: lambda I: VInt(len(calls(I, n_))))(h_)

    def end_eject_reports(I, result):
        e = calls(I, "end_eject")
        return VBool(I.eq(e[-1].args["ball_left"], result)) if e else VBool(False)
    C.helpers["end_eject_reports"] = end_eject_reports
    C.trace_helpers |= {"n_start_eject", "n_end_eject", "end_eject_reports"}
    C.fn("OutgoingBallsHandler._eject_ball", params=dict(eject_request=REQ, eject_try=Int), result=Bool,
         loops={0: LoopSpec(invariant=[], modifies=[])},
         loops_by_text={"old_balls - new_balls": LoopSpec(invariant=[], modifies=[])},
         ensures=[("J1: one attempt takes the counting lock once (start_eject) and releases it once (end_eject) on "
                   "every exit, so a failed or timed-out eject cannot leave the device stuck on its own lock",
                   "n_start_eject() == 1 and n_end_eject() == 1"),
                  ("J2: end_eject is told whether the ball left, and that is the result of the attempt",
                   "end_eject_reports(result)")],
         modifies=["eject_request.already_left"], raises={},
         emits=call_emit("_eject_ball", "eject_try"), call_ensures=[])
    C.ext("OutgoingBallsHandler._skipping_ball", params=dict(target=ObjS("Target"), add_ball_to_target=Bool),
          result=Bool, model=None, external=True, ensures=[], emits=call_emit("_skipping_ball"), modifies=[],
          trusted_reason="an incoming ball skipped the device (not under contract)")
    C.fn("OutgoingBallsHandler._ejecting", params=dict(eject_request=REQ), result=Bool,
         requires=[("an eject is in progress", "self._current_target is not None"),
                   ("the retry limit is not negative", "eject_request.max_tries >= 0")],
         loops={0: LoopSpec(
             invariant=[("the request still has a target", "self._current_target is not None"),
                        ("attempts are counted", "eject_try >= 0"),
                        ("the limit has not been reached yet", "implies(eject_request.max_tries != 0, eject_try < "
                                                               "eject_request.max_tries)")],
             modifies=["self._cancel_future", "self._eject_future", "eject_request.already_left"],
             body_ensures=[
                 ("E1: a pass makes at most one physical attempt, and only after the eject_attempt queue event and "
                  "the target's readiness gate", "n_eject_ball() <= 1 and attempt_after_gate()"),
                 ("E2: a failed attempt that will be retried is reported exactly once, with retry=True and the new "
                  "number of attempts, and is counted",
                  "implies(attempt_failed(), failed_report_is(attempt_try() + 1, True) and eject_try == attempt_try() + 1)"),
                 ("E3: without a failed attempt nothing is reported as failed", "implies(not attempt_failed(), "
                                                                                "n_failed_eject() == 0)"),
                 ("E6: the eject future of an attempt is resolved with the attempt's result after EVERY attempt (a source "
                  "waiting to send the next ball is always woken), and dropped", "eject_future_resolved()")])},
         ensures=[
             ("E4: the loop gives up (False) only when max_tries is set and reached: the last failed attempt is "
              "reported once with retry=False, the device enters eject_broken and posts balldevice_<n>_broken - it "
              "reports itself broken rather than hanging silently",
              "implies(not result, attempt_failed() and eject_request.max_tries != 0 and attempt_try() + 1 >= "
              "eject_request.max_tries and failed_report_is(attempt_try() + 1, False) and last_state() == "
              "'eject_broken' and broken_posted() and n_task_cancel() == 1)"),
             ("E5: True is returned only after a successful attempt, a cancelled request or a confirmed skip - never "
              "after a failed attempt", "implies(result, not attempt_failed() and n_failed_eject() == 0)"),
             ("E1 (last pass)", "n_eject_ball() <= 1 and attempt_after_gate()"),
             ("E6 (last pass)", "eject_future_resolved()"),
         ],
         modifies=["self._cancel_future", "self._eject_future", "eject_request.already_left"],
         raises={"AssertionError": "False"})
    C.assume("C05 is PARTIAL: liveness ('eventually delivered', 'returns to idle') is not decided; _eject_ball, "
             "_skipping_ball, the request queue of BallDevice, the incoming balls handler and the ejectors are "
             "assumed / not under contract")
    C.assume("A-ASYNCIO Util.first returns one of the futures it is given (then done) or raises TimeoutError; "
             "cancelled tasks (device stop) are not modelled")
    return C


BD = "mpf/devices/ball_device/ball_device.py"
BS = "mpf/devices/ball_save.py"


def build_extra():
    """further pieces of 'a request is served or stays queued, never dropped': the search for an available ball along
    the source / target chains, and the re-request of saved balls"""
    C = ContractSet("C05", "ball requests: path search and ball save")
    C.strings = False
    common.declare_delay_client(C)
    common.declare_events(C)

    # ---- BallSave._schedule_balls
    C.cls("SystemWideDevice", fields={})
    C.cls("ModeDevice", file="mpf/core/mode_device.py", fields={})
    C.fn("ModeDevice.device_removed_from_mode", inline=True, no_inv=True)
    C.cls("BallSave", file=BS, bases=["SystemWideDevice", "ModeDevice"], fields=dict(
        config=Rec(eject_delay=Int, delayed_eject_events=Seq(Str)), delay=common.DelayMgr, _scheduled_balls=Int),
        check_bases=False)
    C.ext("BallSave._add_balls", model=lambda I, env, a, k: (emit(I, "_add_balls", n=a[0] if a else k.get("balls_to_save")), NONE)[1],
          trusted_reason="BallSave._add_balls: requests the balls back to the playfield (playfield.add_ball, C04 P8)")

    def own_delay_for(I, n):
        """a NEW, anonymous delay (its own slot: it cannot replace an earlier pending one) that will call
        _add_balls(balls_to_save=n) after eject_delay"""
        evs = events_named(I, "delay.add")
        if len(evs) != 1:
            return VBool(False)
        e = evs[0]
        anonymous = isinstance(e.args["name"], str) and e.args["name"].startswith("uuid#")
        cb = I.force(e.args["callback"])
        ok = anonymous and cb.tag == "fn" and cb.kind == "bound" and cb.name == "_add_balls" and \
            set(e.args["kwargs"]) == {"balls_to_save"}
        if not ok:
            return VBool(False)
        this = I.frames[0].env["self"].ref
        cfg = I.force(I.read_field(this, "config")).ref
        return VBool(z3.And(I.eq(e.args["kwargs"]["balls_to_save"], n),
                            I.eq(e.args["ms"], I.read_field(cfg, "eject_delay"))))
    C.helpers["own_delay_for"] = own_delay_for
    C.helpers["n_add_balls"] = lambda I: VInt(len(events_named(I, "_add_balls")))
    C.helpers["n_delay_adds"] = lambda I: VInt(len(events_named(I, "delay.add")))

    def add_balls_now(I, n):
        evs = events_named(I, "_add_balls")
        return VBool(z3.And(z3.BoolVal(len(evs) == 1), I.eq(evs[0].args["n"], n)) if len(evs) == 1 else z3.BoolVal(False))
    C.helpers["add_balls_now"] = add_balls_now
    C.trace_helpers = {"own_delay_for", "n_add_balls", "n_delay_adds", "add_balls_now", "delegated_to_target",
                       "n_target_calls"}
    C.fn("BallSave._schedule_balls", params=dict(balls_to_save=Int),
         ensures=[("BS1: every saved ball is requested back exactly once: after its own eject delay (a delay of its own "
                   "that no later save can replace), or when the delayed-eject event comes (counted), or right now",
                   "(own_delay_for(balls_to_save) and n_add_balls() == 0 and self._scheduled_balls == "
                   "old(self._scheduled_balls)) if self.config['eject_delay'] else ((self._scheduled_balls == "
                   "old(self._scheduled_balls) + balls_to_save and n_add_balls() == 0 and n_delay_adds() == 0) if "
                   "len(self.config['delayed_eject_events']) > 0 else (add_balls_now(balls_to_save) and "
                   "n_delay_adds() == 0 and self._scheduled_balls == old(self._scheduled_balls)))")],
         modifies=["self._scheduled_balls", "self.delay.pending.**"], raises={})

    C.ext("BallSave.disable", model=lambda I, env, a, k: (emit(I, "save.disable"), NONE)[1],
          trusted_reason="BallSave.disable: stops saving further balls (removes its own 'disable' / 'hurry_up' / 'grace' "
                         "timers by name)")
    C.fn("BallSave.delayed_eject", inline=True, no_inv=True)
    C.helpers["pending_requests_kept"] = lambda I: VBool(not [e for e in I.cur_trace()
                                                              if e.name in ("delay.clear", "delay.remove", "delay.add")])
    C.helpers["n_disabled"] = lambda I: VInt(len(events_named(I, "save.disable")))
    C.trace_helpers |= {"pending_requests_kept", "n_disabled"}
    C.fn("BallSave.device_removed_from_mode", params=dict(mode=Opaque("Mode")),
         ensures=[("BS2: when its mode ends the ball save stops saving - but a ball it has ALREADY saved is still owed to "
                   "the playfield: the pending eject-delay requests are left to fire (not cleared with the mode), and balls "
                   "waiting for a delayed-eject event are requested at once",
                   "n_disabled() == 1 and pending_requests_kept() and (add_balls_now(old(self._scheduled_balls)) and "
                   "self._scheduled_balls == 0 if len(self.config['delayed_eject_events']) > 0 else n_add_balls() == 0)")],
         modifies=["self._scheduled_balls", "self.mode"], raises={})

    # ---- the search along the eject chain
    C.cls("TargetDevice", fields=dict(name=Str, available_balls=Int))
    C.ext("TargetDevice.is_playfield", model=lambda I, env, a, k: VBool(z3.Bool("is_playfield[%s]" % env["self"].ref.name)),
          trusted_reason="device kind", pure=True, result=Bool)

    def target_search(I, env, a, k):
        r = VBool(z3.Bool(I.fresh_name("found_further_down")))
        ev = emit(I, "target.find_available_ball_in_path", start=a[0])
        ev.ret = r
        return r
    C.ext("TargetDevice.find_available_ball_in_path", model=target_search,
          trusted_reason="the next device of the chain answers for the rest of the path (the same function there)")
    C.cls("Logger", fields={})
    C.ext("Logger.warning", model=common.noop, trusted_reason="logging")
    C.cls("BallDeviceStateHandler", fields={})
    C.cls("OutgoingBallsHandler", file=OBH, bases=["BallDeviceStateHandler"], fields=dict(
        _current_target=Opt(ObjS("TargetDevice", name=Str, available_balls=Int)),
        ball_device=ObjS("BallDevice", available_balls=Int, log=ObjS("Logger"))))

    def delegated(I):
        evs = [e for e in I.cur_trace() if e.name == "target.find_available_ball_in_path"]
        if len(evs) != 1 or I.result is None:
            return VBool(False)
        start = I.frames[0].env["start"]
        return VBool(z3.And(I.eq(I.result, evs[0].ret), z3.BoolVal(I.force(evs[0].args["start"]).ref is I.force(start).ref)))
    C.helpers["delegated_to_target"] = delegated
    C.helpers["n_target_calls"] = lambda I: VInt(len([e for e in I.cur_trace()
                                                      if e.name == "target.find_available_ball_in_path"]))

    def start_init(I, name):
        """the device the search started at: the current target itself (a loop) or another device"""
        if I.ctx.fork(2) == 0:
            t = I.force(I.read_field(I.frames[0].env["self"].ref, "_current_target"))
            alts = t.alts if isinstance(t, VUnion) else ((None, t),)
            for g, a in alts:
                if a.tag == "obj":
                    if g is not None:
                        I.ctx.assume(g)
                    return a
        return VObj(Obj("TargetDevice", ObjS("TargetDevice", name=Str, available_balls=Int), "start_device"))
    C.fn("OutgoingBallsHandler.find_available_ball_in_path", params=dict(start=Init(start_init)), result=Bool,
         ensures=[("FP1: the search follows the eject chain to its END: a loop finds nothing; a device without an eject "
                   "answers from its own available balls; a playfield at the end always has the ball; any other target "
                   "is ASKED (its answer is the result) - the ball reserved at an intermediate device is not the one "
                   "at the end of the path",
                   "(not result and n_target_calls() == 0) if self._current_target is start else "
                   "((result == (self.ball_device.available_balls > 0) and n_target_calls() == 0) if "
                   "self._current_target is None else ((result and n_target_calls() == 0) if "
                   "self._current_target.is_playfield() else delegated_to_target()))")],
         modifies=[], raises={})

    # ---- the search for a source with an available ball
    C.cls("SourceDevice", fields={})

    def src_search(I, env, a, k):
        p = k.get("path", a[0] if a else None)
        emit(I, "source.find_one_available_ball", path=p, items=tuple(I.container(I.force(p).ref).items))
        if I.ctx.fork(2) == 0:
            return VBool(False)
        return I.new_list([env["self"]] + list(I.container(I.force(p).ref).items), "full_path")
    C.ext("SourceDevice.find_one_available_ball", model=src_search,
          trusted_reason="the same search at a source device: False, or a path that extends the one it was given")

    def deque_model(I, a, k):
        if a:
            return I.new_list(list(I.iter_conc(a[0])), "deque")
        return I.new_list([], "deque")
    C.globals["deque"] = VFn("model", model=deque_model)

    def sources(I, name):
        return I.new_list([VObj(Obj("SourceDevice", ObjS("SourceDevice", {}), "%s[%d]" % (name, i)))
                           for i in range(I.ctx.fork(3))], name)

    def path_init(I, name):
        v = I.ctx.fork(3)
        if v == 0:
            return NONE
        others = [VObj(Obj("SourceDevice", ObjS("SourceDevice", {}), "requesting_device"))]
        if v == 2:
            others.append(I.frames[0].env["self"])      # we are already on the path: a loop
        return I.new_list(others, name)
    C.cls("SystemWideDeviceB", fields={})
    C.cls("BallDevice", file=BD, fields=dict(available_balls=Int, _source_devices=Init(sources)), check_bases=False)

    def same_path_for_every_source(I):
        """every source is asked with the SAME path: the caller's path with this device in front"""
        evs = [e for e in I.cur_trace() if e.name == "source.find_one_available_ball"]
        this = I.frames[0].env["self"]
        p0 = I.frames[0].env["path"]
        base = [] if I.force(p0).tag == "none" else list(I.old_heap.data[(I.force(p0).ref, "$")].items)
        want = [this.ref] + [I.force(x).ref for x in base]
        return VBool(all([I.force(x).ref for x in e.args["items"]] == want for e in evs))
    C.helpers["same_path_for_every_source"] = same_path_for_every_source
    C.trace_helpers |= {"same_path_for_every_source"}
    C.fn("BallDevice.find_one_available_ball", params=dict(path=Init(path_init)),
         loops={0: LoopSpec(invariant=[], unroll=True)},
         ensures=[("FS1: the caller's path is never changed and every source is searched from the same path (a failed "
                   "branch leaves nothing behind)", "same_path_for_every_source()")],
         modifies=[], raises={}, bounded="BOUNDED: at most 2 source devices, caller paths of length 0..2")
    C.only_verify = ["BallSave._schedule_balls", "OutgoingBallsHandler.find_available_ball_in_path",
                     "BallDevice.find_one_available_ball", "BallSave.device_removed_from_mode"]
    return [C, incoming_set(), multiball_set(), request_queue_set()]


def native_histories(C):
    for demo_, what_ in (("c05_mechanical_eject_phantom_ball.py", "after a mechanical eject from idle the next request is served by a "
                                                              "source that really has a ball"),
                         ("c05_weak_plunge_deadlock.py", "a mechanical plunge whose ball comes back leaves the device able to "
                                                        "eject again"),
                         ("c05_skipped_ball_phantom.py", "after a ball skipped an idle device the next request is served by a "
                                                        "source that really has a ball"),
                         ('c05_player_controlled_eject_never_retried.py',
                          'a player-controlled eject whose pulse does not move the ball is retried or reported as failed')):
        C.finite_checks.append(common.native_demo_check(demo_, what_))


def request_queue_set():
    """BallDevice._ball_requests: a ball request is either served at once (one eject chain, set up at the first device of
    a path that ends at the target) or stays in the device's queue - it is never dropped - and a queued request is taken
    up again, oldest first, whenever a source announces available balls"""
    C = ContractSet("C05q", "ball requests are served or stay queued, never dropped")
    C.strings = False
    C.cls("SystemWideDeviceB", fields={})
    C.cls("Dev", fields=dict(name=Str))

    def chain(I, env, a, k):
        emit(I, "chain", at=env["self"].ref, path=list(I.container(I.force(a[0]).ref).items),
             pc=a[1] if len(a) > 1 else k.get("player_controlled", VBool(False)))
        return NONE
    C.ext("Dev.setup_eject_chain", model=chain,
          trusted_reason="BallDevice.setup_eject_chain on the first device of the path: claims one available ball there and "
                         "books it for the target (C04)")

    C.ext("BallDevice.setup_eject_chain", model=chain,
          trusted_reason="BallDevice.setup_eject_chain (this device is the first of the path): claims one available ball and "
                         "books it for the target (C04)")

    def deque_model(I, a, k):
        return I.new_list(list(I.iter_conc(a[0])) if a else [], "deque")
    C.globals["deque"] = VFn("model", model=deque_model)

    def requests(I, name):
        """0..2 requests already queued: (target, player_controlled)"""
        out = []
        for i in range(I.ctx.fork(3)):
            out.append(VTuple([I.fresh(ObjS("Dev"), "%s[%d].target" % (name, i)),
                               VBool(z3.Bool("%s[%d].pc" % (name, i)))]))
        return I.new_list(out, name)
    C.cls("BallDevice", file=BD, check_bases=False,
          fields=dict(available_balls=Int, _ball_requests=Init(requests), name=Str))

    def the_target(I):
        t = I.frames[0].env.get("target")
        if t is None:           # _source_device_balls_available / request_ball: the request in question
            return None
        return I.force(t)

    def path_to_target(I, env, a, k):
        """a path [self, ..., target] ([self] for a request of this device itself), or no path"""
        this = env["self"]
        tgt = I.force(a[0])
        if tgt.tag == "obj" and tgt.ref is this.ref:
            return I.new_list([this], "path_to_self")
        v = I.ctx.fork(3)
        if v == 0:
            return NONE
        mid = [I.fresh(ObjS("Dev"), I.fresh_name("hop"))] if v == 2 else []
        return I.new_list([this] + mid + [a[0]], I.fresh_name("path_to_target"))
    C.ext("BallDevice.find_path_to_target", model=path_to_target,
          trusted_reason="BallDevice.find_path_to_target: the eject path from this device to the target (starts at this "
                         "device, ends at the target), or None")

    def one_available(I, env, a, k):
        """a path [source, ..., self] from a source that has an available ball, or nothing"""
        v = I.ctx.fork(3)
        if v == 0:
            return VBool(False)
        src = I.fresh(ObjS("Dev"), I.fresh_name("source"))
        mid = [I.fresh(ObjS("Dev"), I.fresh_name("via"))] if v == 2 else []
        return I.new_list([src] + mid + [env["self"]], I.fresh_name("path_from_source"))
    C.ext("BallDevice.find_one_available_ball", model=one_available,
          trusted_reason="BallDevice.find_one_available_ball (FS1, above): a path from a source with an available ball to "
                         "this device, or False")
    C.ext("BallDevice.debug_log", model=common.noop, trusted_reason="logging")

    def entries(I, heap):
        this = I.frames[0].env["self"].ref
        return list(heap.data[(I.force(I.read_field(this, "_ball_requests", heap=heap)).ref, "$")].items)

    def same_req(I, a, b):
        a, b = I.force(a), I.force(b)
        return z3.And(z3.BoolVal(I.force(a.items[0]).ref is I.force(b.items[0]).ref), I.eq(a.items[1], b.items[1]))

    def queue_is(I, kind, target=None, pc=None):
        """kind 'same': the queue is what it was; 'appended': old + [(target, pc)]; 'rotated' / 'popped': the oldest request
        was taken off and (rotated) put back at the end"""
        old, new = entries(I, I.old_heap), entries(I, I.heap)
        kind = I.pyconst(I.force(kind))
        if kind == "same":
            want = old
        elif kind == "appended":
            want = old + [VTuple([target, pc])]
        elif kind == "popped":
            want = old[1:]
        else:
            want = old[1:] + old[:1]
        if len(new) != len(want):
            return VBool(False)
        return VBool(z3.And([same_req(I, x, y) for x, y in zip(new, want)] + [z3.BoolVal(True)]))
    C.helpers["queue_is"] = queue_is
    C.helpers["n_chains"] = lambda I: VInt(len(events_named(I, "chain")))
    C.helpers["n_queued"] = lambda I: VInt(len(entries(I, I.heap)))
    C.helpers["n_queued_before"] = lambda I: VInt(len(entries(I, I.old_heap)))

    def chain_reaches(I, target, pc):
        """the one chain is set up AT the first device of its path, the path ends at the target and carries the request's
        player_controlled flag"""
        evs = events_named(I, "chain")
        if len(evs) != 1:
            return VBool(False)
        e = evs[0]
        path = [I.force(x).ref for x in e.args["path"]]
        if not path or path[0] is not e.args["at"] or path[-1] is not I.force(target).ref:
            return VBool(False)
        return VBool(I.eq(e.args["pc"], pc))
    C.helpers["chain_reaches"] = chain_reaches

    def oldest(I, i):
        old = entries(I, I.old_heap)
        return I.force(old[0]).items[I.pyconst(I.force(i))] if old else NONE
    C.helpers["oldest"] = oldest
    C.trace_helpers = {"n_chains", "chain_reaches"}

    def target_init(I, name):
        return I.frames[0].env["self"] if I.ctx.fork(2) == 0 else I.fresh(ObjS("Dev"), name)
    C.fn("BallDevice._setup_or_queue_eject_to_target", params=dict(target=Init(target_init), player_controlled=Bool),
         result=Bool,
         ensures=[("RQ1: a request is served at once - ONE eject chain, set up at the first device of a path that ends at the "
                   "target, with the request's player-controlled flag, the queue untouched - or it is put at the END of this "
                   "device's request queue with its target and flag: never dropped, never served twice",
                   "(chain_reaches(target, player_controlled) and queue_is('same')) if result else "
                   "(n_chains() == 0 and queue_is('appended', target, player_controlled))")],
         modifies=["self._ball_requests.**"], raises={"AssertionError": True},
         ensures_exc=[("a request for a target without a path is refused before anything happens",
                       "n_chains() == 0 and queue_is('same')")], inline_calls=True)
    C.fn("BallDevice._source_device_balls_available", params=dict(kwargs=Opaque("Kwargs")),
         ensures=[("RQ2: when a source announces balls the OLDEST queued request is taken up: it is served (one chain to its "
                   "target, the queue one shorter) or put back at the end (nothing lost); with an empty queue nothing happens",
                   "(n_chains() == 0 and queue_is('same')) if n_queued_before() == 0 else "
                   "((chain_reaches(oldest(0), oldest(1)) and queue_is('popped')) if n_chains() > 0 else "
                   "queue_is('rotated'))")],
         modifies=["self._ball_requests.**"], raises={"AssertionError": True})
    C.fn("BallDevice.request_ball", params=dict(balls=Init(lambda I, name: VInt(I.ctx.fork(3)))), result=Int,
         ensures=[("RQ3: every requested ball is accounted for: chains set up plus requests newly queued equal the number "
                   "requested", "n_chains() + n_queued() - n_queued_before() == balls"),
                  ("the number requested is returned", "result == balls")],
         modifies=["self._ball_requests.**"], raises={"AssertionError": True},
         bounded="BOUNDED: 0..2 balls requested, 0..2 requests already queued")
    C.fns["BallDevice._setup_or_queue_eject_to_target"].bounded = "BOUNDED: 0..2 requests already queued, paths of 1..3 devices"
    C.fns["BallDevice._source_device_balls_available"].bounded = "BOUNDED: 0..2 requests already queued, paths of 1..3 devices"
    native_histories(C)
    return C


MB = "mpf/devices/multiball.py"


def multiball_set():
    """Multiball.start: the balls of a multiball are requested from its locks only as far as the locks can still GIVE
    them (available_balls: balls no other eject has claimed) - a lock has no source of its own, so a request beyond that
    would sit in its queue forever (and steal the next ball locked) - and the rest from the default source"""
    C = ContractSet("C05m", "multiball start requests balls that can be served")
    C.strings = False
    for b in ("EnableDisableMixin", "SystemWideDevice", "ModeDevice"):
        C.cls(b, fields={})
    C.cls("LockI", fields=dict(balls=Int, available_balls=Int))

    def locks(I, name):
        out = []
        for i in range(I.ctx.fork(3)):
            o = I.fresh(ObjS("LockI"), "%s[%d]" % (name, i))
            r = I.force(o).ref
            I.ctx.assume(z3.And(I.force(I.read_field(r, "available_balls")).t >= 0,
                                I.force(I.read_field(r, "available_balls")).t <= I.force(I.read_field(r, "balls")).t))
            out.append(o)
        return I.new_list(out, name)
    C.cls("PlayfieldI", fields={})
    C.ext("PlayfieldI.add_ball", model=lambda I, env, a, k: (emit(I, "add_ball", balls=k.get("balls", a[0] if a else NONE),
                                                                  source=k.get("source_device", NONE)), NONE)[1],
          trusted_reason="Playfield.add_ball (C04 P8): queues that many ball requests at the source device (default "
                         "source when none is given)")
    C.cls("TemplateI", fields=dict(value=Int))
    C.ext("TemplateI.evaluate", model=lambda I, env, a, k: I.read_field(env["self"].ref, "value"), pure=True,
          trusted_reason="template evaluation (C16)")
    common.declare_events(C)
    C.cls("Multiball", file=MB, bases=["EnableDisableMixin", "SystemWideDevice", "ModeDevice"], check_bases=False,
          fields=dict(enabled=Bool, balls_live_target=Int, balls_added_live=Int, shoot_again=Bool, name=Str,
                      ball_locks=Init(locks), source_playfield=ObjS("PlayfieldI"),
                      config=Rec(shoot_again=ObjS("TemplateI")),
                      machine=ObjS("MachineController", events=ObjS("EventManager"))))

    def handle_bip(I, env, a, k):
        this = env["self"].ref
        n = z3.Int(I.fresh_name("balls_added_live"))
        I.ctx.assume(n >= 0)
        I.write_field(this, "balls_added_live", VInt(n))
        I.write_field(this, "balls_live_target", VInt(z3.Int(I.fresh_name("balls_live_target"))))
        return NONE
    C.ext("Multiball._handle_balls_in_play_and_balls_live", model=handle_bip,
          trusted_reason="works out how many balls this multiball adds (balls_added_live >= 0) from the ball count "
                         "policy and the balls in play")
    for m_ in ("stop", "_timer_start", "debug_log"):
        C.ext("Multiball." + m_, model=common.noop, trusted_reason="shoot-again timers / logging")
    C.ext("EventManager.add_handler", model=common.noop, trusted_reason="registers the shoot-again drain handler (C01)")

    def served(I):
        this = I.frames[0].env["self"].ref
        want = I.force(I.read_field(this, "balls_added_live")).t
        lks = [I.force(x).ref for x in I.container(I.force(I.read_field(this, "ball_locks")).ref).items]
        evs = events_named(I, "add_ball")
        total = z3.IntVal(0)
        conj = []
        per_lock = {id(l): z3.IntVal(0) for l in lks}
        for e in evs:
            n = I.force(e.args["balls"]).t
            conj.append(n >= 0)
            total = total + n
            src = I.force(e.args["source"])
            if src.tag == "obj":
                if id(src.ref) not in per_lock:
                    return VBool(False)
                per_lock[id(src.ref)] = per_lock[id(src.ref)] + n
            elif src.tag != "none":
                return VBool(False)
        for l in lks:
            conj.append(per_lock[id(l)] <= I.force(I.read_field(l, "available_balls", heap=I.old_heap)).t)
        conj.append(total == want)
        return VBool(z3.And(conj))
    C.helpers["requests_can_be_served"] = served
    C.helpers["n_requests"] = lambda I: VInt(len(events_named(I, "add_ball")))
    C.trace_helpers = {"requests_can_be_served", "n_requests"}
    C.fn("Multiball.start",
         loops_by_text={"self.ball_locks": LoopSpec(invariant=[], unroll=True)},
         ensures=[("MB1: a started multiball requests exactly the balls it adds; from each lock at most the balls that "
                   "lock can still give (available_balls - not the balls physically in it, some of which another eject "
                   "may have claimed already), the rest from the default source",
                   "implies(old(self.enabled) and old(self.balls_live_target) <= 0, requests_can_be_served())"),
                  ("a disabled or already running multiball requests nothing",
                   "implies(not old(self.enabled) or old(self.balls_live_target) > 0, n_requests() == 0)")],
         modifies=["self.shoot_again", "self.balls_added_live", "self.balls_live_target"], raises={}, skip_frame=True,
         bounded="BOUNDED: at most 2 ball locks")
    return C


IBH = "mpf/devices/ball_device/incoming_balls_handler.py"


def incoming_set():
    """the ball in transit between two devices (IncomingBall) and the target's bookkeeping of such balls: a ball in
    transit ends in exactly one of `arrived` / `lost`, is taken off the target's list exactly once, its eject is
    confirmed to the source exactly once, and an arrival at the target is matched to the first ball that can arrive
    (else reported as unexpected)"""
    C = ContractSet("C05i", "balls in transit: one outcome, one confirmation, one removal")
    C.strings = False
    A = "asyncio.Future (A-ASYNCIO): done / cancelled flags; set_result on a done future raises InvalidStateError"
    C.exc("InvalidStateError", "Exception")
    C.cls("Fut", fields=dict(is_done=Bool, is_cancelled=Bool))

    def new_fut(I, nm, done=False):
        o = Obj("Fut", ObjS("Fut", is_done=Bool, is_cancelled=Bool), I.fresh_name(nm))
        o.fresh = True
        I.heap.data[(o, "is_done")] = VBool(done)
        I.heap.data[(o, "is_cancelled")] = VBool(False)
        return VObj(o)
    C.ext("Fut.done", model=lambda I, env, a, k: I.read_field(env["self"].ref, "is_done"), trusted_reason=A)
    C.ext("Fut.cancelled", model=lambda I, env, a, k: I.read_field(env["self"].ref, "is_cancelled"), trusted_reason=A)

    def fut_cancel(I, env, a, k):
        d = I.truth(I.read_field(env["self"].ref, "is_done"))
        if not I.ctx.branch(d):
            I.write_field(env["self"].ref, "is_done", VBool(True))
            I.write_field(env["self"].ref, "is_cancelled", VBool(True))
        emit(I, "future.cancel", fut=env["self"].ref)
        return VBool(True)
    C.ext("Fut.cancel", model=fut_cancel, trusted_reason=A)

    def fut_set_result(I, env, a, k):
        if I.ctx.branch(I.truth(I.read_field(env["self"].ref, "is_done"))):
            I.raise_("InvalidStateError", "invalid state")
        I.write_field(env["self"].ref, "is_done", VBool(True))
        emit(I, "future.set_result", fut=env["self"].ref)
        return NONE
    C.ext("Fut.set_result", model=fut_set_result, trusted_reason=A)
    C.globals["asyncio"] = VFn("module", name="asyncio")
    C.globals["asyncio.ensure_future"] = VFn("model", model=lambda I, a, k: new_fut(I, "timeout_task"))
    C.globals["asyncio.sleep"] = VFn("model", model=lambda I, a, k: VOpaque("Any", z3.Const(I.fresh_name("sleep"),
                                                                                            usort("Any"))))
    C.cls("TargetDev", fields=dict(playfield=Bool))
    C.ext("TargetDev.is_playfield", model=lambda I, env, a, k: I.read_field(env["self"].ref, "playfield"),
          trusted_reason="BallDevice / Playfield.is_playfield")
    C.ext("TargetDev.remove_incoming_ball",
          model=lambda I, env, a, k: (emit(I, "target.remove_incoming_ball", ball=I.force(a[0]).ref), NONE)[1],
          trusted_reason="IncomingBallsHandler.remove_incoming_ball of the target (verified below)")
    C.cls("TimeoutMap", fields={})
    C.ext("TimeoutMap.__getitem__", model=lambda I, env, a, k: VInt(z3.Int(I.fresh_name("missing_timeout_ms"))),
          trusted_reason="validated config: a ball_missing_timeouts entry (ms) exists for every eject target")
    C.cls("SourceDev", fields=dict(config=Rec(ball_missing_timeouts=ObjS("TimeoutMap"))))
    FUT = ObjS("Fut", is_done=Bool, is_cancelled=Bool)
    C.cls("IncomingBall", file=IBH, fields=dict(
        _timeout_future=FUT, _confirm_future=FUT, _can_skip_future=FUT, _source=ObjS("SourceDev"),
        _target=ObjS("TargetDev"), _external_confirm_future=Opt(FUT),
        _state=Union(Const("left_device"), Const("arrived"), Const("lost"))),
        invariants=[("I1: the eject is confirmed to the source at most once: while the ball is in transit and no "
                     "external confirmation has completed, the confirm future is unresolved",
                     "implies(self._state == 'left_device' and (self._external_confirm_future is None or not "
                     "self._external_confirm_future.is_done), not self._confirm_future.is_done)")])
    C.helpers["n_removed"] = lambda I: VInt(len(events_named(I, "target.remove_incoming_ball")))
    C.helpers["n_confirmed"] = lambda I: VInt(len([e for e in events_named(I, "future.set_result") if e.args["fut"] is
                                                  I.force(I.read_field(I.frames[0].env["self"].ref, "_confirm_future",
                                                                       heap=I.old_heap)).ref]))
    C.trace_helpers = {"n_removed", "n_confirmed", "arrival_matched", "n_expected", "n_unexpected"}
    TRANSIT = "old(self._state) == 'left_device'"
    C.fn("IncomingBall.can_arrive", is_property=True, result=Bool,
         ensures=["result == (self._state == 'left_device' and (self._external_confirm_future is None or "
                  "self._external_confirm_future.is_done))"], modifies=[], raises={})
    IMODS = ["self._state", "self._timeout_future.is_done", "self._timeout_future.is_cancelled",
             "self._external_confirm_future.is_done", "self._external_confirm_future.is_cancelled",
             "self._confirm_future.is_done", "self._timeout_future"]
    C.fn("IncomingBall.did_not_arrive",
         ensures=[("IB1: a ball in transit that did not arrive becomes `lost`, its timers are cancelled and it is taken "
                   "off the target's list exactly once; a ball that already arrived or was lost is left alone",
                   "(self._state == 'lost' and n_removed() == 1 and self._timeout_future.is_done) if " + TRANSIT +
                   " else (self._state == old(self._state) and n_removed() == 0)"),
                  ("the source gets no confirmation from a lost ball", "n_confirmed() == 0")],
         modifies=IMODS, raises={})
    C.fn("IncomingBall.ball_arrived",
         ensures=[("IB2: an arrival ends the transit exactly once: state `arrived`, off the target's list once, timeout "
                   "cancelled; the source is confirmed here iff no external confirmation is used (it confirms itself)",
                   "(self._state == 'arrived' and n_removed() == 1 and self._timeout_future.is_done and "
                   "n_confirmed() == (1 if self._external_confirm_future is None else 0)) if " + TRANSIT +
                   " else (self._state == old(self._state) and n_removed() == 0 and n_confirmed() == 0)")],
         modifies=IMODS, raises={})
    C.fn("IncomingBall._external_confirm", params=dict(future=FUT),
         requires=[("done callback of the external confirmation: it runs once, when that future is done",
                    "future.is_done and not self._confirm_future.is_done")],
         ensures=[("IB3: a cancelled external confirmation confirms nothing; a real one confirms the eject to the source "
                   "exactly once and (for a device target) re-arms the timeout for the way to the target",
                   "n_confirmed() == (0 if future.is_cancelled else 1)")],
         modifies=IMODS, raises={}, no_inv=True)

    # ---- the target's list of balls in transit
    NIB = common.bound(2, 3)
    C.cls("BallDeviceStateHandler", fields={})
    C.cls("AsyncEvent", fields=dict(flag=Bool))
    C.ext("AsyncEvent.set", model=lambda I, env, a, k: (I.write_field(env["self"].ref, "flag", VBool(True)), NONE)[1],
          trusted_reason="asyncio.Event")
    C.ext("AsyncEvent.clear", model=lambda I, env, a, k: (I.write_field(env["self"].ref, "flag", VBool(False)), NONE)[1],
          trusted_reason="asyncio.Event")
    C.cls("BallInTransit", fields=dict(can_arrive=Bool, source=Opaque("Any")))

    def transit_arrived(I, env, a, k):
        emit(I, "transit.ball_arrived", ball=env["self"].ref)
        return NONE
    C.ext("BallInTransit.ball_arrived", model=transit_arrived,
          trusted_reason="IncomingBall.ball_arrived (IB2 above): ends the transit, takes the ball off the list")
    C.ext("BallInTransit.wait_for_can_skip", model=lambda I, env, a, k: new_fut(I, "can_skip", done=bool(I.ctx.fork(2))),
          trusted_reason="IncomingBall.wait_for_can_skip: shielded future")
    C.ext("Fut.add_done_callback", model=lambda I, env, a, k: (emit(I, "add_done_callback"), NONE)[1], trusted_reason=A)
    C.cls("OutgoingI", fields={})
    C.ext("OutgoingI.add_incoming_ball_which_may_skip", model=common.noop, trusted_reason="mechanical-eject skip tracking")
    C.ext("OutgoingI.remove_incoming_ball_which_may_skip",
          model=lambda I, env, a, k: (emit(I, "remove_may_skip"), NONE)[1], trusted_reason="mechanical-eject skip tracking")
    C.cls("DeviceI", fields=dict(config=Rec(mechanical_eject=Bool), outgoing_balls_handler=ObjS("OutgoingI")))
    C.ext("DeviceI.expected_ball_received", model=lambda I, env, a, k: (emit(I, "expected_ball_received"), NONE)[1],
          trusted_reason="BallDevice.expected_ball_received: the ball belongs to a running eject towards this device")
    C.ext("DeviceI.unexpected_ball_received", model=lambda I, env, a, k: (emit(I, "unexpected_ball_received"), NONE)[1],
          trusted_reason="BallDevice.unexpected_ball_received: a ball nobody announced (captured from the playfield)")

    def transit_list(I, name):
        return I.new_list([I.fresh(ObjS("BallInTransit"), "%s[%d]" % (name, i)) for i in range(I.ctx.fork(NIB + 1))], name)
    C.cls("IncomingBallsHandler", file=IBH, bases=["BallDeviceStateHandler"], fields=dict(
        _incoming_balls=Init(transit_list), _has_incoming_balls=ObjS("AsyncEvent"),
        _has_no_incoming_balls=ObjS("AsyncEvent"), ball_device=ObjS("DeviceI")))
    C.helpers["n_expected"] = lambda I: VInt(len(events_named(I, "expected_ball_received")))
    C.helpers["n_unexpected"] = lambda I: VInt(len(events_named(I, "unexpected_ball_received")))

    def arrival_matched(I):
        """the arrival is given to the FIRST ball in the list that can arrive (and to no other); if none can, the ball
        is reported as unexpected"""
        this = I.frames[0].env["self"].ref
        balls = [I.force(b).ref for b in I.container(I.force(I.read_field(this, "_incoming_balls", heap=I.old_heap)).ref,
                                                     heap=I.old_heap).items]
        got = [e.args["ball"] for e in events_named(I, "transit.ball_arrived")]
        nexp, nun = len(events_named(I, "expected_ball_received")), len(events_named(I, "unexpected_ball_received"))
        cans = [I.truth(I.read_field(b, "can_arrive", heap=I.old_heap)) for b in balls]
        cases = []
        for i, b in enumerate(balls):
            first = z3.And([z3.Not(c) for c in cans[:i]] + [cans[i]])
            cases.append(z3.And(first, z3.BoolVal(got == [b] and nexp == 1 and nun == 0)))
        none = z3.And([z3.Not(c) for c in cans] + [z3.BoolVal(True)])
        cases.append(z3.And(none, z3.BoolVal(got == [] and nexp == 0 and nun == 1)))
        return VBool(z3.Or(cases))
    C.helpers["arrival_matched"] = arrival_matched
    C.fn("IncomingBallsHandler.ball_arrived",
         loops={0: LoopSpec(invariant=[], unroll=True)},
         ensures=[("IH1: every arrival is accounted for exactly once: matched to the first ball in transit that can arrive "
                   "(then the device is told an expected ball came) or else reported as unexpected", "arrival_matched()")],
         modifies=[], raises={}, bounded="BOUNDED: at most %d balls in transit" % NIB)
    C.fn("IncomingBallsHandler.add_incoming_ball", params=dict(incoming_ball=ObjS("BallInTransit")),
         ensures=[("IH2: the ball is appended (arrival order = list order) and the has-incoming flags say so",
                   "len(self._incoming_balls) == old(len(self._incoming_balls)) + 1 and "
                   "self._incoming_balls[-1] is incoming_ball and self._has_incoming_balls.flag and "
                   "not self._has_no_incoming_balls.flag")],
         modifies=["self._incoming_balls", "self._has_incoming_balls.flag", "self._has_no_incoming_balls.flag"],
         raises={}, bounded="BOUNDED: at most %d balls in transit" % NIB)
    C.fn("IncomingBallsHandler.get_num_incoming_balls", result=Int,
         ensures=["result == len(self._incoming_balls)"], modifies=[], raises={})
    C.assume("IncomingBallsHandler._run (timeouts of balls in transit) and remove_incoming_ball's ValueError for a ball "
             "that is not in the list are not under contract")
    return C
