"""C14 - Serial links: framing, integrity and command flow control.

* exhaustive: the OPP CRC-8 table equals polynomial 0x07 at all 256 indices (table read from the module AST);
* calc_crc8_whole_msg / calc_crc8_part_msg compute the table-driven CRC of exactly the bytes given (loop
  invariants over a recursively defined spec function);
* OPP read_gen2_inp_resp: a frame whose CRC does not match never changes a switch state (CRC gate);
* FAST parse_incoming_raw_bytes: every loop step cuts exactly the segment before the first <CR>, and the loop
  only exits when no <CR> is left => the decoded sequence is a function of the byte stream alone;
* FAST _socket_writer: queue order, and nothing is written while a confirmation is outstanding (invariant W1).
"""
import ast as pyast
import os

import z3

from pyvc.contract import ContractSet, LoopSpec
from pyvc.vals import *       # noqa
from pyvc import extract
from pyvc.interp import Raised, MISSING as MISSING_
from . import common
from .common import emit, events_named

OPPI = "mpf/platforms/opp/opp_rs232_intf.py"
OPP = "mpf/platforms/opp/opp.py"
FAST = "mpf/platforms/fast/communicators/base.py"


def crc_table_check(C):
    node = extract.module_constant(OPPI, "OppRs232Intf.CRC8_LOOKUP")
    table = [pyast.literal_eval(e) for e in node.elts]
    rows = [("CRC8_LOOKUP has 256 entries", len(table) == 256, "len=%d" % len(table))]
    bad = []
    for i in range(256):
        c = i
        for _ in range(8):
            c = ((c << 1) ^ 0x07) & 0xff if c & 0x80 else (c << 1) & 0xff
        if i >= len(table) or table[i] != c:
            bad.append(i)
    rows.append(("CRC8_LOOKUP[i] is CRC-8 (polynomial 0x07) of i for all 256 indices", not bad,
                 "all equal" if not bad else "differs at indices %s" % bad[:8]))
    return rows


WRITE_SITES = {("mpf/platforms/fast/communicators/base.py", "FastSerialCommunicator._socket_writer"):
               "the writer task: takes commands from the send queue in order (W1/W2)",
               ("mpf/platforms/fast/communicators/base.py", "FastSerialCommunicator.clear_board_serial_buffer"):
               "start-up only: flushes the board's input buffer before the writer task exists"}


def write_site_check(C):
    """'queued commands keep their order': every byte written to a FAST port goes through the send queue and the writer
    task.  Enumerates every call of write_to_port under mpf/platforms/fast; a new call site bypasses the queue - unless it
    is a helper that is itself only ever CALLED (never passed around) from sites that are allowed (the writer task split
    into helpers stays the writer task)."""
    import os
    rows = []
    root = os.path.join(extract.REPO, "mpf/platforms/fast")
    calls = {}          # attribute name -> [(file, enclosing function, line)]
    refs = {}           # attribute name -> number of non-call references (bound methods handed on)
    for dp, dn, fn in os.walk(root):
        for f in fn:
            if not f.endswith(".py"):
                continue
            relf = os.path.relpath(os.path.join(dp, f), extract.REPO)
            src, tree = extract.load_module(relf)
            stack = [(tree, "")]
            while stack:
                node, qual = stack.pop()
                called = set()
                for ch in pyast.iter_child_nodes(node):
                    q = qual
                    if isinstance(ch, (pyast.ClassDef, pyast.FunctionDef, pyast.AsyncFunctionDef)):
                        q = (qual + "." if qual else "") + ch.name
                    if isinstance(ch, pyast.Call) and isinstance(ch.func, pyast.Attribute):
                        calls.setdefault(ch.func.attr, []).append((relf, qual, ch.lineno))
                        called.add(id(ch.func))
                    stack.append((ch, q))
                if isinstance(node, pyast.Attribute) and not isinstance(getattr(node, "ctx", None), pyast.Store):
                    refs[node.attr] = refs.get(node.attr, 0) + 1

    def allowed(relf, qual, depth=0):
        if (relf, qual) in WRITE_SITES:
            return WRITE_SITES[(relf, qual)]
        name = qual.rsplit(".", 1)[-1]
        sites = calls.get(name, [])
        # every reference to the helper is a call (refs counts calls too), it is private, and every caller is allowed
        if depth < 3 and name.startswith("_") and not name.startswith("__") and sites and \
                refs.get(name, 0) == len(sites):
            why = [allowed(f2, q2, depth + 1) for f2, q2, _ in sites]
            if all(why):
                return "helper called only from: " + "; ".join(sorted(set("%s (%s)" % (q2, w) for (_, q2, _), w in
                                                                       zip(sites, why))))
        return None
    for relf, qual, line in sorted(calls.get("write_to_port", [])):
        why = allowed(relf, qual)
        rows.append(("write_to_port site %s:%s" % (relf, qual), bool(why), why or
                     "NEW site %s:%d writes to the port directly, past the send queue and its confirmation gate" % (relf, line)))
    return rows


def build():
    C = ContractSet("C14", "Serial links: framing, integrity and command flow control")
    C.decode_may_fail = True
    C.assume("bytes.decode() fails exactly for byte strings that are not well-formed UTF-8; which strings those are is left "
             "open (uninterpreted predicate) except that pure ASCII always decodes - a counterexample needs a byte >= 0x80")
    C.strings = True
    C.finite_checks.append(crc_table_check)
    C.finite_checks.append(common.native_demo_check(
        "c14_noise_byte_ends_fast_reader.py",
        'a frame with a byte that is not UTF-8 does not end the FAST reader: the frames that follow are decoded'))
    C.finite_checks.append(common.native_demo_check(
        'c14_unrelated_frame_cancels_retry.py',
        'a lost response is retried as configured also when an unrelated frame (a switch report) arrives during the timeout'))
    C.finite_checks.append(common.native_demo_check(
        'c14_exhausted_retries_wedge_channel.py',
        'after the last retry of a lost response later confirmed commands are still written to the port'))
    C.finite_checks.append(write_site_check)

    # ------------------------------------------------------------------ OPP CRC
    LOOKUP = z3.Function("CRC8_LOOKUP", z3.IntSort(), z3.IntSort())
    CRC = z3.Function("crc8_spec", z3.SeqSort(z3.IntSort()), z3.IntSort(), z3.IntSort(), z3.IntSort())   # (msg, start, k)
    C.cls("CrcTable", fields={})
    C.ext("CrcTable.__getitem__", model=lambda I, env, a, k: VInt(LOOKUP(I.force(a[0]).t)),
          trusted_reason="the 256-entry table (its contents are the exhaustive finite check)")
    C.cls("OppRs232Intf", file=OPPI, fields={})
    C.globals["OppRs232Intf"] = VCls("OppRs232Intf")
    C.globals["OppRs232Intf.CRC8_LOOKUP"] = VObj(Obj("CrcTable", ObjS("CrcTable", {}), "CRC8_LOOKUP"))

    def seq_of(I, v):
        c = I.container(I.force(v).ref)
        return c.term

    XOR = z3.Function("py_bitxor", z3.IntSort(), z3.IntSort(), z3.IntSort())

    def xor(a, b):
        return XOR(a, b)

    def crc_def(I, msg, start, k):
        """definition of the table-driven CRC over msg[start : start+k], unfolded at k:
        crc(0) = 0xff, crc(k+1) = LOOKUP[crc(k) xor msg[start+k]]"""
        m, s0, kk = seq_of(I, msg), I.force(start).t, I.force(k).t
        byte = m[s0 + kk]
        nxt = LOOKUP(xor(CRC(m, s0, kk), byte))
        return VBool(z3.And(CRC(m, s0, 0) == 0xff, CRC(m, s0, kk + 1) == nxt, nxt >= 0, nxt <= 255))
    C.helpers["crc_def"] = crc_def
    C.helpers["crc"] = lambda I, msg, start, k: VInt(CRC(seq_of(I, msg), I.force(start).t, I.force(k).t))
    C.helpers["byte_of"] = lambda I, b: VInt(z3.StrToCode(I.force(b).t))

    C.fn("OppRs232Intf.calc_crc8_part_msg", params=dict(msg_chars=Seq(Int), start_index=Int, num_chars=Int),
         requires=[("indices are not negative", "start_index >= 0 and num_chars >= 0")],
         defs=["crc_def(msg_chars, start_index, 0)"],
         loops={0: LoopSpec(assume=["crc_def(msg_chars, start_index, index)"],
                            invariant=["0 <= index <= num_chars", "crc8_byte == crc(msg_chars, start_index, index)",
                                       "0 <= crc8_byte <= 255"],
                            roles={"index": "counter", "crc8_byte": "acc"})},
         result=Bytes,
         ensures=[("one byte: the CRC of exactly msg[start : start+num]",
                   "len(result) == 1 and byte_of(result) == crc(msg_chars, start_index, num_chars)")],
         raises={"AssertionError": "len(msg_chars) < start_index + num_chars"}, modifies=[], pure=True)
    C.fn("OppRs232Intf.calc_crc8_whole_msg", params=dict(msg_chars=Seq(Int)),
         defs=["crc_def(msg_chars, 0, 0)"],
         loops={0: LoopSpec(assume=["crc_def(msg_chars, 0, _k)"], invariant=["crc8_byte == crc(msg_chars, 0, _k)", "0 <= crc8_byte <= 255"],
                            roles={"crc8_byte": "acc"})},
         result=Bytes,
         ensures=[("one byte: the CRC of the whole message",
                   "len(result) == 1 and byte_of(result) == crc(msg_chars, 0, len(msg_chars))")],
         raises={}, modifies=[])

    # ------------------------------------------------------------------ OPP CRC gate
    C.cls("Logger", fields={})
    C.ext("Logger.warning", model=common.noop, trusted_reason="logging")
    C.cls("SwitchController", fields={})

    def psbn(I, env, args, kwargs):
        emit(I, "process_switch_by_num", state=kwargs.get("state"), num=kwargs.get("num"))
        return NONE
    C.ext("SwitchController.process_switch_by_num", model=psbn, trusted_reason="switch controller entry point (C03)")
    C.cls("OPPSerialCommunicator", fields={})
    C.ext("OPPSerialCommunicator.lost_synch", model=lambda I, env, a, k: (emit(I, "lost_synch"), NONE)[1],
          trusted_reason="marks the chain as out of sync")
    INP = ObjS("OPPInputCard", old_state=Int, chain_serial=Str, card_num=Str)
    C.cls("OPPInputCard", fields={})
    C.cls("OppHardwarePlatform", file=OPP, fields=dict(
        log=ObjS("Logger"), machine=ObjS("MachineController", switch_controller=ObjS("SwitchController")),
        opp_connection=MapS(Str, Opaque("Conn")), bad_crc=MapS(Str, Int), _poll_response_received=MapS(Str, Opaque("AsyncEv"))),
          check_bases=False)
    C.cls("AsyncEv", fields={})
    C.ext("AsyncEv.set", model=common.noop, trusted_reason="poll bookkeeping event")
    C.cls("Conn", fields={})
    C.ext("Conn.lost_synch", model=lambda I, env, a, k: (emit(I, "lost_synch"), NONE)[1],
          trusted_reason="marks the chain as out of sync")
    # (declared below, after the card dictionaries exist: OppHardwarePlatform._bad_crc)

    def card_lookup(I, name):
        """inp_addr_dict: chain-address -> input card; one card object stands for whichever entry is looked up"""
        return I.fresh(MapS(Str, Opaque("CardRef")), name)
    C.helpers["n_switch_events"] = lambda I: VInt(len(events_named(I, "process_switch_by_num")))
    C.trace_helpers = {"n_switch_events", "wrote_in_order", "dispatched_segment"}

    # the card found in inp_addr_dict is modelled as one symbolic card (its identity does not matter to the gate)
    class _Cards:
        pass

    def inp_getitem(I, env, args, kwargs):
        return I.read_field(env["self"].ref, "card")

    def inp_contains(I, env, args, kwargs):
        return VBool(z3.Bool("card_known"))
    C.cls("CardDict", fields=dict(card=INP))
    C.ext("CardDict.__getitem__", model=inp_getitem, trusted_reason="dict lookup of the input card for an address")
    C.ext("CardDict.__contains__", model=inp_contains, trusted_reason="dict membership of the card address")
    C.classes["OppHardwarePlatform"].fields["inp_addr_dict"] = ObjS("CardDict")
    C.classes["OppHardwarePlatform"].fields["matrix_inp_addr_dict"] = ObjS("CardDict")
    C.fn("OppHardwarePlatform._bad_crc", params=dict(chain_serial=Str, msg=Seq(Int)),
         requires=["chain_serial in self.bad_crc"], modifies=["self.bad_crc"], raises={},
         emits=lambda I, env, res: None,
         ensures=[("B1: a frame with a wrong checksum only increments the error counter: it changes no switch state "
                   "and not the cached input state the NEXT valid report is compared with (otherwise a closure "
                   "reported right after line noise is lost)",
                   "n_switch_events() == 0 and self.inp_addr_dict.card.old_state == "
                   "old(self.inp_addr_dict.card.old_state) and self.matrix_inp_addr_dict.card.old_state == "
                   "old(self.matrix_inp_addr_dict.card.old_state)")])

    C.fn("OppHardwarePlatform.read_gen2_inp_resp", params=dict(chain_serial=Str, msg=Seq(Int)),
         requires=["chain_serial in self.bad_crc", "chain_serial in self.opp_connection", "chain_serial in self._poll_response_received"],
         defs=["crc_def(msg, 0, 0)"],
         loops={0: LoopSpec(invariant=[], body_ensures=[
             ("at most one switch report per input bit", "n_switch_events() <= 1")])},
         ensures=[
             ("a frame that is too short never changes a switch state",
              "implies(len(msg) < 7, n_switch_events() == 0 and "
              "self.inp_addr_dict.card.old_state == old(self.inp_addr_dict.card.old_state))"),
             ("a frame with a wrong checksum never changes a switch state",
              "implies(len(msg) >= 7, implies(msg[6] != crc(msg, 0, 6), n_switch_events() == 0 and "
              "self.inp_addr_dict.card.old_state == old(self.inp_addr_dict.card.old_state)))"),
         ],
         modifies=["self.bad_crc", "self.inp_addr_dict.card.old_state"], raises={})

    C.fn("OppHardwarePlatform.read_gen2_inp_resp_initial", params=dict(chain_serial=Str, msg=Seq(Int)),
         requires=["chain_serial in self.bad_crc", "chain_serial in self.opp_connection"],
         defs=["crc_def(msg, 0, 0)"],
         ensures=[("a start-up input frame with a wrong checksum never sets the card's input state either",
                   "implies(len(msg) >= 7, implies(msg[6] != crc(msg, 0, 6), n_switch_events() == 0 and "
                   "self.inp_addr_dict.card.old_state == old(self.inp_addr_dict.card.old_state)))")],
         modifies=["self.bad_crc", "self.inp_addr_dict.card.old_state"], raises={"AssertionError": "len(msg) < 7"})

    # ------------------------------------------------------------------ FAST
    C.cls("AsyncEvent", fields=dict(flag=Bool))

    def ev_is_set(I, env, a, k):
        return I.read_field(env["self"].ref, "flag")

    def ev_set(I, env, a, k):
        I.write_field(env["self"].ref, "flag", VBool(True))
        emit(I, "flag.set")
        return NONE

    def ev_clear(I, env, a, k):
        I.write_field(env["self"].ref, "flag", VBool(False))
        emit(I, "flag.clear")
        return NONE

    def ev_wait(I, env, a, k):
        """asyncio.Event.wait(): returns at once when the flag IS set; otherwise suspends until someone sets it"""
        f = I.force(I.read_field(env["self"].ref, "flag")).t
        extra = {}
        this = I.frames[0].env.get("self")
        if this is not None and this.tag == "obj" and I.read_field(this.ref, "no_response_waiting") is not MISSING_ \
                and I.frames[0].fc is not None and "send_and_wait" in I.frames[0].fc.key:
            nrw = I.force(I.read_field(this.ref, "no_response_waiting")).ref
            extra = dict(nrw=I.read_field(nrw, "flag"), queued=I.read_field(I.ghost, "n_queued"))
        emit(I, "flag.wait", was_set=VBool(f), obj=env["self"].ref, **extra)
        if I.ctx.branch(f):
            return VBool(True)
        I.trace[-1].args["suspended"] = True
        I.write_field(env["self"].ref, "flag", VBool(True))     # resumed by set()
        return VBool(True)
    A = "asyncio primitives (A-ASYNCIO)"
    C.ext("AsyncEvent.is_set", model=ev_is_set, trusted_reason=A)
    C.ext("AsyncEvent.set", model=ev_set, trusted_reason=A)
    C.ext("AsyncEvent.clear", model=ev_clear, trusted_reason=A)
    C.ext("AsyncEvent.wait", model=ev_wait, trusted_reason=A)
    C.cls("AsyncQueue", fields={})

    def q_get(I, env, a, k):
        """Queue.get(): FIFO; may suspend, and while suspended the reader task may resume sending (clear the
        flag) - it never sets it (rely)"""
        this = I.frames[0].env["self"].ref
        fl = I.force(I.read_field(this, "pause_sending_flag")).ref
        was = I.force(I.read_field(fl, "flag")).t
        I.havoc_field(fl, "flag")
        I.ctx.assume(z3.Implies(I.force(I.read_field(fl, "flag")).t, was))
        until = I.fresh(Opt(Str), I.fresh_name("until"))
        for g_, a_ in until.alts:
            if a_.tag == "str":
                I.ctx.assume(z3.Implies(g_, z3.Length(a_.t) >= 3))     # confirmation headers have >= 3 characters
        item = VTuple([VStr(z3.String(I.fresh_name("msg")), True), until, I.fresh(Opt(Str), I.fresh_name("log"))])
        emit(I, "queue.get", item=item)
        return item
    C.ext("AsyncQueue.get", model=q_get, trusted_reason=A + ": FIFO queue")
    C.cls("Writer", fields={})
    C.ext("Writer.write", model=lambda I, env, a, k: (emit(I, "port.write", data=a[0]), NONE)[1],
          trusted_reason="serial transport")
    C.exc("SerialException", "OSError")
    C.cls("LogMixin", fields={})
    C.cls("FastSerialCommunicator", file=FAST, bases=["LogMixin"], fields=dict(
        send_queue=ObjS("AsyncQueue"), pause_sending_flag=ObjS("AsyncEvent"), pause_sending_until=Opt(Str),
        writer=ObjS("Writer"), port_debug=Bool, log=ObjS("Logger"), received_msg=Bytes,
        machine=ObjS("MachineController", is_shutting_down=Bool), ignore_decode_errors=Bool))
    C.ext("Logger.info", model=common.noop, trusted_reason="logging")
    C.ext("Logger.error", model=common.noop, trusted_reason="logging")
    C.fn("FastSerialCommunicator.pause_sending", params=dict(msg_header=Str), inline=True)
    C.fn("FastSerialCommunicator._resume_sending", inline=True)
    C.fn("FastSerialCommunicator.write_to_port", params=dict(msg=Bytes, log_msg=Opt(Str)), inline=True)

    def wrote_in_order(I):
        """one iteration: exactly the message just taken from the queue is written, once"""
        tr = [e for e in I.cur_trace() if e.name in ("queue.get", "port.write")]
        if [e.name for e in tr] != ["queue.get", "port.write"]:
            return VBool(False)
        return VBool(I.eq(I.force(tr[0].args["item"]).items[0], tr[1].args["data"]))
    C.helpers["wrote_in_order"] = wrote_in_order
    C.fn("FastSerialCommunicator._socket_writer",
         requires=[("nothing outstanding when the writer starts", "not self.pause_sending_flag.flag")],
         loops={0: LoopSpec(
             invariant=[("W1: no confirmation is outstanding when the next command is taken from the queue "
                         "(so nothing further is written until the awaited confirmation has arrived)",
                         "not self.pause_sending_flag.flag")],
             body_ensures=[("W2: queued commands keep their order: the command taken is the one written",
                            "wrote_in_order()")])},
         modifies=["self.pause_sending_flag.flag", "self.pause_sending_until"], raises={})

    def dispatch(I, env, a, k):
        emit(I, "dispatch", msg=a[0])
        return NONE
    C.ext("FastSerialCommunicator._dispatch_incoming_msg", model=dispatch,
          trusted_reason="hands one decoded message to the message processors")

    def dispatched_segment(I, carry0, carry1):
        """one parser step: the old carry-over is  segment + <CR> + new carry-over, the segment has no <CR>, and it
        is dispatched (once) iff it is not empty"""
        c0, c1 = I.force(carry0).t, I.force(carry1).t
        cr = z3.StringVal("\r")
        pos = z3.IndexOf(c0, cr, 0)
        seg = z3.SubString(c0, 0, pos)
        d = events_named(I, "dispatch")
        shape = z3.And(c0 == z3.Concat(seg, cr, c1), z3.Not(z3.Contains(seg, cr)))
        if len(d) == 0:
            return VBool(z3.And(shape, seg == z3.StringVal("")))
        if len(d) != 1:
            return VBool(False)
        return VBool(z3.And(shape, z3.Length(seg) > 0, I.force(d[0].args["msg"]).t == seg))
    C.helpers["dispatched_segment"] = dispatched_segment
    C.helpers["has_cr"] = lambda I, s: VBool(z3.Contains(I.force(s).t, z3.StringVal("\r")))
    C.fn("FastSerialCommunicator.parse_incoming_raw_bytes", params=dict(msg=Bytes),
         loops={0: LoopSpec(invariant=[], modifies=["self.received_msg"], body_ensures=[
             ("each step cuts exactly the first <CR>-terminated segment and dispatches it unchanged",
              "dispatched_segment(old_iter(self.received_msg), self.received_msg)")])},
         ensures=[("the parser stops only when no complete message is left (or on shutdown)",
                   "not has_cr(self.received_msg) or self.machine.is_shutting_down")],
         modifies=["self.received_msg"],
         # from the property: "after line noise the decoder resynchronises so that subsequent valid frames are decoded
         # again" - a frame that does not decode must not end the parser (the read task dies with the exception)
         raises={})

    # ---- lost responses are retried as configured
    C.ghost.update(dict(n_queued=Int))
    C.classes["FastSerialCommunicator"].fields["no_response_waiting"] = ObjS("AsyncEvent")
    C.classes["FastSerialCommunicator"].fields["done_waiting"] = ObjS("AsyncEvent")

    def queue_msg(I, env, a, k):
        I.write_field(I.ghost, "n_queued", VInt(I.force(I.read_field(I.ghost, "n_queued")).t + 1))
        emit(I, "queued", msg=a[0])
        return NONE
    C.ext("FastSerialCommunicator.send_with_confirmation", model=queue_msg,
          trusted_reason="puts (message, confirmation header) on the send queue (writer: W1/W2)")
    C.exc("TimeoutError", "Exception")
    C.globals["asyncio"] = VFn("module", name="asyncio")
    C.globals["asyncio.TimeoutError"] = VCls("TimeoutError")

    def wait_for(I, a, k):
        """asyncio.wait_for(awaitable, timeout): only an awaitable that actually SUSPENDS can time out.  Here: the last
        thing evaluated was Event.wait() on a clear flag (it suspended) - the environment decides whether the flag is
        set in time (the reader task got the response) or the timeout fires (the flag stays clear)."""
        tr = I.cur_trace()
        if tr and tr[-1].name == "flag.wait" and not z3.is_true(z3.simplify(I.force(tr[-1].args["was_set"]).t)) and \
                tr[-1].args.get("suspended"):
            if I.ctx.fork(2) == 1:
                I.write_field(tr[-1].args["obj"], "flag", VBool(False))
                emit(I, "timeout")
                I.raise_("TimeoutError", "timeout")
        return NONE
    C.globals["asyncio.wait_for"] = VFn("model", model=wait_for)
    C.fn("FastSerialCommunicator.send_and_wait_for_response", params=dict(msg=Str, pause_sending_until=Str,
                                                                          log_msg=Opt(Str)), inline=True)

    def final_wait_ok(I, max_retries):
        """at the indefinite wait for done_waiting (no timeout): the response has been received, or all configured
        attempts (1 + max_retries) have been made"""
        this = I.frames[0].env["self"].ref
        dw = I.force(I.read_field(this, "done_waiting")).ref
        waits = [e for e in events_named(I, "flag.wait") if e.args["obj"] is dw]
        if not waits:
            return VBool(True)
        e = waits[-1]
        mr = I.force(max_retries).t
        return VBool(z3.Or(I.force(e.args["nrw"]).t, z3.And(mr != -1, I.force(e.args["queued"]).t >= mr + 1)))
    C.helpers["final_wait_ok"] = final_wait_ok
    C.trace_helpers |= {"final_wait_ok"}
    C.fn("FastSerialCommunicator.send_and_wait_for_response_processed",
         params=dict(msg=Str, pause_sending_until=Str, timeout=Real, max_retries=Int, log_msg=Opt(Str)),
         requires=[("max_retries is -1 (unlimited) or a number of retries", "max_retries >= -1"),
                   ("ghost counter starts at zero", "ghost.n_queued == 0")],
         loops_by_text={"max_retries": LoopSpec(
             invariant=[("one message queued per attempt so far", "ghost.n_queued == retries and retries >= 0")],
             modifies=["ghost.n_queued", "self.no_response_waiting.flag", "self.done_waiting.flag"])},
         ensures=[("W3: a lost response is retried as configured rather than blocking forever: the caller only settles "
                   "into the un-timed wait for done_waiting once the response has been received or all 1 + max_retries "
                   "attempts have been made", "final_wait_ok(max_retries)")],
         modifies=["ghost.n_queued", "self.no_response_waiting.flag", "self.done_waiting.flag"], raises={})

    C.assume("A-ASYNCIO: Event.wait() returns immediately when the flag is set; Queue.get() is FIFO; while the "
             "writer is suspended the reader may clear the pause flag but never sets it (rely)")
    C.assume("bytes are modelled as SMT strings of code points 0..255; bytes.decode() keeps the text (ASCII protocol)")
    C.assume("Python's integer bit operators on symbolic operands are uninterpreted functions (py_bitxor, py_bitand, ...)")
    C.assume("chunk independence follows from the per-step relation + exit condition by induction on the number of "
             "<CR> in the stream (stated, DESIGN 4.C14)")
    return C


NEURON = "mpf/platforms/fast/communicators/net_neuron.py"


def neuron_set():
    """FAST Neuron: after a valid SA: report MPF's switch states equal the report (bounded report length)"""
    C = ContractSet("C14b", "FAST switch reports are applied")
    C.strings = False
    NB = 1          # every bit of a report byte is a branch of the decoder: 2^8 paths per byte
    BITAND = z3.Function("py_bitand", z3.IntSort(), z3.IntSort(), z3.IntSort())
    BITXOR = z3.Function("py_bitxor", z3.IntSort(), z3.IntSort(), z3.IntSort())
    C.cls("AsyncEvent", fields=dict(flag=Bool))
    C.ext("AsyncEvent.set", model=lambda I, env, a, k: (I.write_field(env["self"].ref, "flag", VBool(True)),
                                                        emit(I, "new_switch_data.set"), NONE)[2],
          trusted_reason="asyncio.Event (A-ASYNCIO)")
    C.cls("HwSwitch", fields=dict(number=Int))
    C.cls("FastPlatform", fields=dict(switches_initialized=Bool, new_switch_data=ObjS("AsyncEvent"),
                                      hw_switch_data=Init(lambda I, n: I.new_dict(()))))
    C.cls("SwitchController", fields={})

    def pso(I, env, a, k):
        emit(I, "process_switch_obj", switch=a[0], state=a[1], logical=a[2])
        return NONE
    C.ext("SwitchController.process_switch_obj", model=pso, trusted_reason="switch controller entry point (C03)")
    NS = common.bound(1, 2)

    def switches(I, name):
        """machine.switches.values(): at most NS switches; each is on this platform or on another one"""
        this = I.frames[0].env["self"].ref
        plat = I.read_field(this, "platform")
        out = []
        for i in range(I.ctx.fork(NS + 1)):
            o = I.fresh(ObjS("Switch", hw_state=Int, state=Int, invert=Int, hw_switch=ObjS("HwSwitch")),
                        "%s[%d]" % (name, i)).ref
            mine = I.ctx.fork(2) == 0
            I.heap.data[(o, "platform")] = plat if mine else VObj(Obj("FastPlatform", ObjS("FastPlatform"), "other_platform"))
            o.mine = mine
            for f in ("hw_state", "state", "invert"):
                v = I.force(I.read_field(o, f)).t
                I.ctx.assume(z3.Or(v == 0, v == 1))
            out.append(VObj(o))
        return I.new_list(out, name)
    C.cls("Switch", fields=dict(hw_state=Int, state=Int, invert=Int, hw_switch=ObjS("HwSwitch"),
                                platform=ObjS("FastPlatform")))
    C.cls("SwitchCollection", fields=dict(items_=Init(switches)))
    C.ext("SwitchCollection.values", model=lambda I, env, a, k: I.read_field(env["self"].ref, "items_"),
          trusted_reason="DeviceCollection.values(): the switch devices (bounded list)")
    C.cls("FastSerialCommunicator", fields={})
    C.cls("FastNetNeuronCommunicator", file=NEURON, bases=["FastSerialCommunicator"], fields=dict(
        platform=ObjS("FastPlatform"),
        machine=ObjS("MachineController", switches=ObjS("SwitchCollection"), switch_controller=ObjS("SwitchController"))))
    C.ext("FastNetNeuronCommunicator.done_processing_msg_response",
          model=lambda I, env, a, k: (emit(I, "done_processing"), NONE)[1],
          trusted_reason="FastSerialCommunicator: resumes sending after the awaited response (writer contract: C14 W1)")

    def fromhex(I, a, k):
        n = I.ctx.fork(NB + 1)
        bs = []
        for i in range(n):
            b = z3.Int(I.fresh_name("sa_byte%d" % i))
            I.ctx.assume(z3.And(b >= 0, b <= 255))
            bs.append(b)
        I.__dict__["c14_sa_bytes"] = bs
        return I.new_list([VInt(b) for b in bs], I.fresh_name("sa_bytes"))
    C.globals["bytearray"] = VFn("module", name="bytearray")
    C.globals["bytearray.fromhex"] = VFn("model", model=fromhex)

    def report_of(I):
        """the decoded report: switch number -> 1/0 for every bit of the report bytes"""
        want = {}
        for off, b in enumerate(I.__dict__.get("c14_sa_bytes", [])):
            for i in range(8):
                want[off * 8 + i] = z3.If(BITAND(b, z3.IntVal(2 ** i)) != 0, 1, 0)
        return want

    def dict_is_report(I, entries):
        want = report_of(I)
        got = {}
        for kk, vv in entries:
            kc = kk
            if isinstance(kk, Val):
                kt = z3.simplify(I.force(kk).t)
                if not z3.is_int_value(kt):
                    return z3.BoolVal(False)
                kc = kt.as_long()
            got[kc] = vv
        if sorted(got) != sorted(want):
            return z3.BoolVal(False)
        return z3.And([I.force(got[n_]).t == want[n_] for n_ in want] + [z3.BoolVal(True)])

    def sa_applied(I):
        """the report was stored as the platform's switch data BEFORE the switches were walked, the walk happened
        exactly once, and the awaited response was marked processed once"""
        ups = events_named(I, "update_switches")
        if len(ups) != 1 or len(events_named(I, "done_processing")) != 1:
            return VBool(False)
        this = I.frames[0].env["self"].ref
        plat = I.force(I.read_field(this, "platform")).ref
        final = I.container(I.force(I.read_field(plat, "hw_switch_data")).ref).entries
        return VBool(z3.And(dict_is_report(I, ups[0].args["data"]), dict_is_report(I, final)))
    C.helpers["sa_applied"] = sa_applied
    C.helpers["n_updates"] = lambda I: VInt(len(events_named(I, "update_switches")))
    C.helpers["walk_unrestricted"] = lambda I: VBool(all(not e.args["extra"] for e in events_named(I, "update_switches")))

    def emit_update(I, env, res):
        plat = I.force(I.read_field(env["self"].ref, "platform")).ref
        d = I.container(I.force(I.read_field(plat, "hw_switch_data")).ref)
        emit(I, "update_switches", data=tuple(d.entries),
             extra=[k_ for k_, v_ in env.items() if k_ != "self" and I.force(v_).tag != "none"])

    def switches_follow_report(I):
        """every switch of THIS platform ends with hw_state = its reported bit, and its logical change (state xor
        invert) is handed to the switch controller exactly when it differs from the switch's state; switches of
        other platforms are not touched"""
        this = I.frames[0].env["self"].ref
        coll = I.force(I.read_field(I.force(I.read_field(this, "machine")).ref, "switches")).ref
        sws = I.container(I.force(I.read_field(coll, "items_", heap=I.old_heap)).ref, heap=I.old_heap).items
        evs = list(events_named(I, "process_switch_obj"))
        conj = []
        for sw in sws:
            o = I.force(sw).ref
            hw_old = I.force(I.read_field(o, "hw_state", heap=I.old_heap)).t
            hw_new = I.force(I.read_field(o, "hw_state")).t
            if not o.mine:
                conj.append(hw_new == hw_old)
                continue
            num = I.force(I.read_field(I.force(I.read_field(o, "hw_switch")).ref, "number"))
            rep = I.force(I.getitem(I.read_field(I.force(I.read_field(this, "platform")).ref, "hw_switch_data"), num)).t
            conj.append(hw_new == rep)
            logical = BITXOR(I.force(I.read_field(o, "invert")).t, rep)
            differs = logical != I.force(I.read_field(o, "state")).t
            mine = [e for e in evs if I.force(e.args["switch"]).ref is o]
            if len(mine) > 1:
                return VBool(False)
            if mine:
                conj.append(z3.And(differs, I.force(mine[0].args["state"]).t == logical, I.truth(mine[0].args["logical"])))
            else:
                conj.append(z3.Not(differs))
        if any(not I.force(e.args["switch"]).ref.mine for e in evs):
            return VBool(False)
        return VBool(z3.And(conj + [z3.BoolVal(True)]))
    C.helpers["switches_follow_report"] = switches_follow_report
    C.helpers["n_new_data"] = lambda I: VInt(len(events_named(I, "new_switch_data.set")))
    C.trace_helpers = {"sa_applied", "n_updates", "switches_follow_report", "n_new_data", "walk_unrestricted"}

    def report_dict(I, name):
        """platform.hw_switch_data covers the switch numbers of the platform's switches (bounded: numbers 0..15)"""
        return I.new_dict(tuple((i, VInt(z3.Int("%s[%d]" % (name, i)))) for i in range(16)))
    C.fn("FastNetNeuronCommunicator.update_switches_from_hw_data",
         params=dict(self=ObjS("FastNetNeuronCommunicator", platform=ObjS("FastPlatform", hw_switch_data=Init(report_dict)))),
         loops_by_text={"self.machine.switches.values()": LoopSpec(invariant=[], unroll=True)},
         ensures=[("US1: after a report MPF's switch states equal those of the report", "switches_follow_report()"),
                  ("waiters are told once that new switch data is there", "n_new_data() == 1")],
         modifies=["self.machine.switches.items_.**", "self.platform.new_switch_data.flag"],
         raises={"KeyError": "not all_numbers_in_report()"}, skip_frame=True,
         emits=emit_update, call_ensures=[],
         bounded="BOUNDED: at most %d switches, switch numbers 0..15, states in {0, 1}" % NS)

    def all_numbers(I):
        this = I.frames[0].env["self"].ref
        coll = I.force(I.read_field(I.force(I.read_field(this, "machine")).ref, "switches")).ref
        cs = []
        for sw in I.container(I.force(I.read_field(coll, "items_")).ref).items:
            n_ = I.force(I.read_field(I.force(I.read_field(I.force(sw).ref, "hw_switch")).ref, "number")).t
            cs.append(z3.And(n_ >= 0, n_ <= 15))
        return VBool(z3.And(cs + [z3.BoolVal(True)]))
    C.helpers["all_numbers_in_report"] = all_numbers
    C.fn("FastNetNeuronCommunicator._process_sa", params=dict(msg=Const("SA:0E,00")),
         ensures=[("SA1: every SA: report received after initialisation - also one identical to the previous report - "
                   "is stored and applied to the switches exactly once: after any sequence of reports and switch "
                   "events MPF's states equal the LAST report", "implies(old(self.platform.switches_initialized), "
                                                               "sa_applied())"),
                  ("SA2: ... and EVERY switch of the platform is reconciled with it (US1 applies to the whole walk: it is "
                   "called without an argument that restricts it, e.g. to the bits that differ from the previous report - "
                   "switch events in between never update the stored report)",
                   "implies(old(self.platform.switches_initialized), walk_unrestricted())"),
                  ("before the switches are initialised the data is ignored",
                   "implies(not old(self.platform.switches_initialized), n_updates() == 0)")],
         modifies=["self.platform.hw_switch_data", "self.platform.new_switch_data.flag",
                   "self.machine.switches.items_.**"],
         raises={"ValueError": True, "KeyError": True}, skip_frame=True,
         bounded="BOUNDED: reports of at most %d bytes (bits symbolic); the message text is a fixed well-formed "
                 "'SA:<n>,<hex>' frame whose payload bytes are the symbolic ones" % NB)
    C.assume("bytearray.fromhex(text) is modelled as a list of symbolic bytes 0..255 (bounded length); whether the hex "
             "text is well-formed is not decided")
    C.assume("Python's integer bit operators on symbolic operands are uninterpreted functions (py_bitxor, py_bitand, ...)")
    return C


def reader_set():
    """FAST reader task: decoding is independent of how the bytes are split across reads - EVERY chunk that was read, a
    lone <CR> included (it terminates the frame whose bytes came in the reads before), reaches the frame parser once"""
    C = ContractSet("C14r", "every chunk read reaches the frame parser")
    C.cls("LogMixin", fields={})
    C.cls("FastSerialCommunicator", file=FAST, bases=["LogMixin"], fields={})

    def read(I, env, a, k):
        r = I.fresh(Opt(Bytes), I.fresh_name("chunk"))
        emit(I, "read", chunk=r)
        return r
    C.ext("FastSerialCommunicator.read", model=read,
          trusted_reason="reads up to n bytes from the serial stream; None when the connection is gone (A-ASYNCIO)")
    C.ext("FastSerialCommunicator.parse_incoming_raw_bytes",
          model=lambda I, env, a, k: (emit(I, "parse", chunk=a[0]), NONE)[1],
          trusted_reason="the frame parser (main set: every step cuts exactly the first <CR>-terminated segment)")

    def chunk_parsed(I):
        tr = [e for e in I.cur_trace() if e.name in ("read", "parse")]
        if not tr or tr[0].name != "read" or len([e for e in tr if e.name == "read"]) != 1:
            return VBool(False)
        chunk = tr[0].args["chunk"]
        parses = tr[1:]
        if len(parses) == 0:
            return VBool(I.eq(chunk, NONE))
        if len(parses) != 1:
            return VBool(False)
        return VBool(z3.And(z3.Not(I.eq(chunk, NONE)), I.eq(parses[0].args["chunk"], chunk)))
    C.helpers["chunk_parsed"] = chunk_parsed
    C.trace_helpers = {"chunk_parsed"}
    C.fn("FastSerialCommunicator._socket_reader",
         loops={0: LoopSpec(invariant=[], body_ensures=[
             ("RD1: the chunk just read is handed to the frame parser, unchanged and exactly once - whatever it contains "
              "(only the end of the stream, None, is not parsed)", "chunk_parsed()")])},
         modifies=[], raises={})
    return C


def build_extra():
    return [neuron_set(), reader_set()]
