"""C14 - Serial links: framing, integrity and command flow control.

* exhaustive: the OPP CRC-8 table equals polynomial 0x07 at all 256 indices (table read from the module AST);
* calc_crc8_whole_msg / calc_crc8_part_msg compute the table-driven CRC of exactly the bytes given (loop
  invariants over a recursively defined spec function);
* OPP read_gen2_inp_resp: a frame whose CRC does not match never changes a switch state (CRC gate);
* FAST parse_incoming_raw_bytes: every loop step cuts exactly the segment before the first <CR>, and the loop
  only exits when no <CR> is left => the decoded sequence is a function of the byte stream alone;
* FAST _socket_writer: queue order, and nothing is written while a confirmation is outstanding (invariant W1).
"""
import ast as pyast

import z3

from pyvc.contract import ContractSet, LoopSpec
from pyvc.vals import *       # noqa
from pyvc import extract
from pyvc.interp import Raised
from . import common
from .common import emit, events_named

OPPI = "mpf/platforms/opp/opp_rs232_intf.py"
OPP = "mpf/platforms/opp/opp.py"
FAST = "mpf/platforms/fast/communicators/base.py"


def crc_table_check(C):
    node = extract.module_constant(OPPI, "OppRs232Intf.CRC8_LOOKUP")
    table = [pyast.literal_eval(e) for e in node.elts]
    rows = [("CRC8_LOOKUP has 256 entries", len(table) == 256, "len=%d" % len(table))]
    bad = []
    for i in range(256):
        c = i
        for _ in range(8):
            c = ((c << 1) ^ 0x07) & 0xff if c & 0x80 else (c << 1) & 0xff
        if i >= len(table) or table[i] != c:
            bad.append(i)
    rows.append(("CRC8_LOOKUP[i] is CRC-8 (polynomial 0x07) of i for all 256 indices", not bad,
                 "all equal" if not bad else "differs at indices %s" % bad[:8]))
    return rows


def build():
    C = ContractSet("C14", "Serial links: framing, integrity and command flow control")
    C.strings = True
    C.finite_checks.append(crc_table_check)

    # ------------------------------------------------------------------ OPP CRC
    LOOKUP = z3.Function("CRC8_LOOKUP", z3.IntSort(), z3.IntSort())
    CRC = z3.Function("crc8_spec", z3.SeqSort(z3.IntSort()), z3.IntSort(), z3.IntSort(), z3.IntSort())   # (msg, start, k)
    C.cls("CrcTable", fields={})
    C.ext("CrcTable.__getitem__", model=lambda I, env, a, k: VInt(LOOKUP(I.force(a[0]).t)),
          trusted_reason="the 256-entry table (its contents are the exhaustive finite check)")
    C.cls("OppRs232Intf", file=OPPI, fields={})
    C.globals["OppRs232Intf"] = VCls("OppRs232Intf")
    C.globals["OppRs232Intf.CRC8_LOOKUP"] = VObj(Obj("CrcTable", ObjS("CrcTable", {}), "CRC8_LOOKUP"))

    def seq_of(I, v):
        c = I.container(I.force(v).ref)
        return c.term

    XOR = z3.Function("py_bitxor", z3.IntSort(), z3.IntSort(), z3.IntSort())

    def xor(a, b):
        return XOR(a, b)

    def crc_def(I, msg, start, k):
        """definition of the table-driven CRC over msg[start : start+k], unfolded at k:
        crc(0) = 0xff, crc(k+1) = LOOKUP[crc(k) xor msg[start+k]]"""
        m, s0, kk = seq_of(I, msg), I.force(start).t, I.force(k).t
        byte = m[s0 + kk]
        nxt = LOOKUP(xor(CRC(m, s0, kk), byte))
        return VBool(z3.And(CRC(m, s0, 0) == 0xff, CRC(m, s0, kk + 1) == nxt, nxt >= 0, nxt <= 255))
    C.helpers["crc_def"] = crc_def
    C.helpers["crc"] = lambda I, msg, start, k: VInt(CRC(seq_of(I, msg), I.force(start).t, I.force(k).t))
    C.helpers["byte_of"] = lambda I, b: VInt(z3.StrToCode(I.force(b).t))

    C.fn("OppRs232Intf.calc_crc8_part_msg", params=dict(msg_chars=Seq(Int), start_index=Int, num_chars=Int),
         requires=[("indices are not negative", "start_index >= 0 and num_chars >= 0")],
         defs=["crc_def(msg_chars, start_index, 0)"],
         loops={0: LoopSpec(assume=["crc_def(msg_chars, start_index, index)"],
                            invariant=["0 <= index <= num_chars", "crc8_byte == crc(msg_chars, start_index, index)",
                                       "0 <= crc8_byte <= 255"],
                            roles={"index": "counter", "crc8_byte": "acc"})},
         result=Bytes,
         ensures=[("one byte: the CRC of exactly msg[start : start+num]",
                   "len(result) == 1 and byte_of(result) == crc(msg_chars, start_index, num_chars)")],
         raises={"AssertionError": "len(msg_chars) < start_index + num_chars"}, modifies=[], pure=True)
    C.fn("OppRs232Intf.calc_crc8_whole_msg", params=dict(msg_chars=Seq(Int)),
         defs=["crc_def(msg_chars, 0, 0)"],
         loops={0: LoopSpec(assume=["crc_def(msg_chars, 0, _k)"], invariant=["crc8_byte == crc(msg_chars, 0, _k)", "0 <= crc8_byte <= 255"],
                            roles={"crc8_byte": "acc"})},
         result=Bytes,
         ensures=[("one byte: the CRC of the whole message",
                   "len(result) == 1 and byte_of(result) == crc(msg_chars, 0, len(msg_chars))")],
         raises={}, modifies=[])

    # ------------------------------------------------------------------ OPP CRC gate
    C.cls("Logger", fields={})
    C.ext("Logger.warning", model=common.noop, trusted_reason="logging")
    C.cls("SwitchController", fields={})

    def psbn(I, env, args, kwargs):
        emit(I, "process_switch_by_num", state=kwargs.get("state"), num=kwargs.get("num"))
        return NONE
    C.ext("SwitchController.process_switch_by_num", model=psbn, trusted_reason="switch controller entry point (C03)")
    C.cls("OPPSerialCommunicator", fields={})
    C.ext("OPPSerialCommunicator.lost_synch", model=lambda I, env, a, k: (emit(I, "lost_synch"), NONE)[1],
          trusted_reason="marks the chain as out of sync")
    INP = ObjS("OPPInputCard", old_state=Int, chain_serial=Str, card_num=Str)
    C.cls("OPPInputCard", fields={})
    C.cls("OppHardwarePlatform", file=OPP, fields=dict(
        log=ObjS("Logger"), machine=ObjS("MachineController", switch_controller=ObjS("SwitchController")),
        opp_connection=MapS(Str, Opaque("Conn")), bad_crc=MapS(Str, Int), _poll_response_received=MapS(Str, Opaque("AsyncEv"))),
          check_bases=False)
    C.cls("AsyncEv", fields={})
    C.ext("AsyncEv.set", model=common.noop, trusted_reason="poll bookkeeping event")
    C.cls("Conn", fields={})
    C.ext("Conn.lost_synch", model=lambda I, env, a, k: (emit(I, "lost_synch"), NONE)[1],
          trusted_reason="marks the chain as out of sync")
    C.fn("OppHardwarePlatform._bad_crc", params=dict(chain_serial=Str, msg=Seq(Int)),
         requires=["chain_serial in self.bad_crc"], modifies=["self.bad_crc"], raises={},
         ensures=[("only the error counter changes", "True")])

    def card_lookup(I, name):
        """inp_addr_dict: chain-address -> input card; one card object stands for whichever entry is looked up"""
        return I.fresh(MapS(Str, Opaque("CardRef")), name)
    C.helpers["n_switch_events"] = lambda I: VInt(len(events_named(I, "process_switch_by_num")))
    C.trace_helpers = {"n_switch_events", "wrote_in_order", "dispatched_segment"}

    # the card found in inp_addr_dict is modelled as one symbolic card (its identity does not matter to the gate)
    class _Cards:
        pass

    def inp_getitem(I, env, args, kwargs):
        return I.read_field(env["self"].ref, "card")

    def inp_contains(I, env, args, kwargs):
        return VBool(z3.Bool("card_known"))
    C.cls("CardDict", fields=dict(card=INP))
    C.ext("CardDict.__getitem__", model=inp_getitem, trusted_reason="dict lookup of the input card for an address")
    C.ext("CardDict.__contains__", model=inp_contains, trusted_reason="dict membership of the card address")
    C.classes["OppHardwarePlatform"].fields["inp_addr_dict"] = ObjS("CardDict")

    C.fn("OppHardwarePlatform.read_gen2_inp_resp", params=dict(chain_serial=Str, msg=Seq(Int)),
         requires=["chain_serial in self.bad_crc", "chain_serial in self.opp_connection", "chain_serial in self._poll_response_received"],
         defs=["crc_def(msg, 0, 0)"],
         loops={0: LoopSpec(invariant=[], body_ensures=[
             ("at most one switch report per input bit", "n_switch_events() <= 1")])},
         ensures=[
             ("a frame that is too short never changes a switch state",
              "implies(len(msg) < 7, n_switch_events() == 0 and "
              "self.inp_addr_dict.card.old_state == old(self.inp_addr_dict.card.old_state))"),
             ("a frame with a wrong checksum never changes a switch state",
              "implies(len(msg) >= 7, implies(msg[6] != crc(msg, 0, 6), n_switch_events() == 0 and "
              "self.inp_addr_dict.card.old_state == old(self.inp_addr_dict.card.old_state)))"),
         ],
         modifies=["self.bad_crc", "self.inp_addr_dict.card.old_state"], raises={})

    # ------------------------------------------------------------------ FAST
    C.cls("AsyncEvent", fields=dict(flag=Bool))

    def ev_is_set(I, env, a, k):
        return I.read_field(env["self"].ref, "flag")

    def ev_set(I, env, a, k):
        I.write_field(env["self"].ref, "flag", VBool(True))
        emit(I, "flag.set")
        return NONE

    def ev_clear(I, env, a, k):
        I.write_field(env["self"].ref, "flag", VBool(False))
        emit(I, "flag.clear")
        return NONE

    def ev_wait(I, env, a, k):
        """asyncio.Event.wait(): returns at once when the flag IS set; otherwise suspends until someone sets it"""
        f = I.force(I.read_field(env["self"].ref, "flag")).t
        emit(I, "flag.wait", was_set=VBool(f))
        if I.ctx.branch(f):
            return VBool(True)
        I.write_field(env["self"].ref, "flag", VBool(True))     # resumed by set()
        return VBool(True)
    A = "asyncio primitives (A-ASYNCIO)"
    C.ext("AsyncEvent.is_set", model=ev_is_set, trusted_reason=A)
    C.ext("AsyncEvent.set", model=ev_set, trusted_reason=A)
    C.ext("AsyncEvent.clear", model=ev_clear, trusted_reason=A)
    C.ext("AsyncEvent.wait", model=ev_wait, trusted_reason=A)
    C.cls("AsyncQueue", fields={})

    def q_get(I, env, a, k):
        """Queue.get(): FIFO; may suspend, and while suspended the reader task may resume sending (clear the
        flag) - it never sets it (rely)"""
        this = I.frames[0].env["self"].ref
        fl = I.force(I.read_field(this, "pause_sending_flag")).ref
        was = I.force(I.read_field(fl, "flag")).t
        I.havoc_field(fl, "flag")
        I.ctx.assume(z3.Implies(I.force(I.read_field(fl, "flag")).t, was))
        until = I.fresh(Opt(Str), I.fresh_name("until"))
        for g_, a_ in until.alts:
            if a_.tag == "str":
                I.ctx.assume(z3.Implies(g_, z3.Length(a_.t) >= 3))     # confirmation headers have >= 3 characters
        item = VTuple([VStr(z3.String(I.fresh_name("msg")), True), until, I.fresh(Opt(Str), I.fresh_name("log"))])
        emit(I, "queue.get", item=item)
        return item
    C.ext("AsyncQueue.get", model=q_get, trusted_reason=A + ": FIFO queue")
    C.cls("Writer", fields={})
    C.ext("Writer.write", model=lambda I, env, a, k: (emit(I, "port.write", data=a[0]), NONE)[1],
          trusted_reason="serial transport")
    C.exc("SerialException", "OSError")
    C.cls("LogMixin", fields={})
    C.cls("FastSerialCommunicator", file=FAST, bases=["LogMixin"], fields=dict(
        send_queue=ObjS("AsyncQueue"), pause_sending_flag=ObjS("AsyncEvent"), pause_sending_until=Opt(Str),
        writer=ObjS("Writer"), port_debug=Bool, log=ObjS("Logger"), received_msg=Bytes,
        machine=ObjS("MachineController", is_shutting_down=Bool), ignore_decode_errors=Bool))
    C.ext("Logger.info", model=common.noop, trusted_reason="logging")
    C.ext("Logger.error", model=common.noop, trusted_reason="logging")
    C.fn("FastSerialCommunicator.pause_sending", params=dict(msg_header=Str), inline=True)
    C.fn("FastSerialCommunicator._resume_sending", inline=True)
    C.fn("FastSerialCommunicator.write_to_port", params=dict(msg=Bytes, log_msg=Opt(Str)), inline=True)

    def wrote_in_order(I):
        """one iteration: exactly the message just taken from the queue is written, once"""
        tr = [e for e in I.cur_trace() if e.name in ("queue.get", "port.write")]
        if [e.name for e in tr] != ["queue.get", "port.write"]:
            return VBool(False)
        return VBool(I.eq(I.force(tr[0].args["item"]).items[0], tr[1].args["data"]))
    C.helpers["wrote_in_order"] = wrote_in_order
    C.fn("FastSerialCommunicator._socket_writer",
         requires=[("nothing outstanding when the writer starts", "not self.pause_sending_flag.flag")],
         loops={0: LoopSpec(
             invariant=[("W1: no confirmation is outstanding when the next command is taken from the queue "
                         "(so nothing further is written until the awaited confirmation has arrived)",
                         "not self.pause_sending_flag.flag")],
             body_ensures=[("W2: queued commands keep their order: the command taken is the one written",
                            "wrote_in_order()")])},
         modifies=["self.pause_sending_flag.flag", "self.pause_sending_until"], raises={})

    def dispatch(I, env, a, k):
        emit(I, "dispatch", msg=a[0])
        return NONE
    C.ext("FastSerialCommunicator._dispatch_incoming_msg", model=dispatch,
          trusted_reason="hands one decoded message to the message processors")

    def dispatched_segment(I, carry0, carry1):
        """one parser step: the old carry-over is  segment + <CR> + new carry-over, the segment has no <CR>, and it
        is dispatched (once) iff it is not empty"""
        c0, c1 = I.force(carry0).t, I.force(carry1).t
        cr = z3.StringVal("\r")
        pos = z3.IndexOf(c0, cr, 0)
        seg = z3.SubString(c0, 0, pos)
        d = events_named(I, "dispatch")
        shape = z3.And(c0 == z3.Concat(seg, cr, c1), z3.Not(z3.Contains(seg, cr)))
        if len(d) == 0:
            return VBool(z3.And(shape, seg == z3.StringVal("")))
        if len(d) != 1:
            return VBool(False)
        return VBool(z3.And(shape, z3.Length(seg) > 0, I.force(d[0].args["msg"]).t == seg))
    C.helpers["dispatched_segment"] = dispatched_segment
    C.helpers["has_cr"] = lambda I, s: VBool(z3.Contains(I.force(s).t, z3.StringVal("\r")))
    C.fn("FastSerialCommunicator.parse_incoming_raw_bytes", params=dict(msg=Bytes),
         loops={0: LoopSpec(invariant=[], modifies=["self.received_msg"], body_ensures=[
             ("each step cuts exactly the first <CR>-terminated segment and dispatches it unchanged",
              "dispatched_segment(old_iter(self.received_msg), self.received_msg)")])},
         ensures=[("the parser stops only when no complete message is left (or on shutdown)",
                   "not has_cr(self.received_msg) or self.machine.is_shutting_down")],
         modifies=["self.received_msg"], raises={"UnicodeDecodeError": "not self.ignore_decode_errors"})

    C.assume("A-ASYNCIO: Event.wait() returns immediately when the flag is set; Queue.get() is FIFO; while the "
             "writer is suspended the reader may clear the pause flag but never sets it (rely)")
    C.assume("bytes are modelled as SMT strings of code points 0..255; bytes.decode() keeps the text (ASCII protocol)")
    C.assume("Python's integer bit operators on symbolic operands are uninterpreted functions (py_bitxor, py_bitand, ...)")
    C.assume("chunk independence follows from the per-step relation + exit condition by induction on the number of "
             "<CR> in the stream (stated, DESIGN 4.C14)")
    return C
