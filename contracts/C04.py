"""C04 - Ball counts agree with the physical machine and are conserved (PARTIAL: step accounting + readiness gate).

The statement is a refinement between MPF's belief and a physical world over all interleavings of several tasks per
device; no contract on the code can mention physical ball positions, and the global invariant that links the counters
of all devices is protocol-level.  What is decided here, per function, for all inputs and states:

* Playfield bookkeeping (devices/playfield.py): every function moves exactly n balls between `balls`,
  `available_balls` and `num_balls_requested`, and nothing else; the balls setter posts its events iff the count
  changes and keeps ball search enabled iff balls > 0.
* BallCountHandler (devices/ball_device/ball_count_handler.py): _set_ball_count (count, mirror in the device, the
  has-balls flag iff count > 0, one change event), start_eject / end_eject (the counting lock is taken once and
  released on every path; the count drops by exactly one iff the ball left), entrance_during_eject (+1 and the
  arrival is reported once).
* The readiness gate  wait_for_ready_to_receive  returns True only at a point where - with no await since they were
  read - free space exceeds the balls already on their way, the counter is ready and the device is not ejecting:
  MPF never fires a ball towards a device that has no room, at the instant the gate opens.

Not decided (DESIGN 5): equality with physical counts, sums equal to num_balls_known, global non-negativity /
capacity bounds across tasks.
"""
import z3

from pyvc.contract import ContractSet, LoopSpec
from pyvc.vals import *       # noqa
from pyvc.ctx import Unsupported, SpecError
from . import common
from .common import emit, events_named

PF = "mpf/devices/playfield.py"
BCH = "mpf/devices/ball_device/ball_count_handler.py"


def build():
    C = ContractSet("C04", "Ball counts agree with the physical machine and are conserved")
    C.strings = False
    common.declare_events(C)
    C.finite_checks.append(common.native_demo_check(
        'c04_two_sources_one_free_slot.py',
        'two sources never fire at a one-ball target at the same time'))
    C.finite_checks.append(common.native_demo_check(
        'c04_double_eject_negative_available.py',
        'no count - available_balls included - goes negative when one pulse ejects two balls'))

    def post_relay(I, env, a, k):
        emit(I, "post", kind="post_relay", event=a[0] if a else k.get("event"),
             kwargs={x: v for x, v in k.items() if x not in ("event", "callback")}, callback=NONE)
        return NONE
    C.ext("EventManager.post_relay", model=post_relay, trusted_reason="event posting (C01)")
    C.cls("BallSearch", fields=dict(enabled=Bool))

    def bs(op, val):
        def m(I, env, a, k):
            if val is not None:
                I.write_field(env["self"].ref, "enabled", VBool(val))
            emit(I, "ball_search." + op)
            return NONE
        return m
    C.ext("BallSearch.enable", model=bs("enable", True), trusted_reason="ball search timer (not under contract)")
    C.ext("BallSearch.disable", model=bs("disable", False), trusted_reason="ball search timer (not under contract)")
    C.ext("BallSearch.reset_timer", model=bs("reset_timer", None), trusted_reason="ball search timer")
    C.cls("BallController", fields={})
    C.ext("BallController.add_captured_ball",
          model=lambda I, env, a, k: (emit(I, "add_captured_ball", source=a[0]), NONE)[1],
          trusted_reason="ball controller: a captured ball may be a new ball (compensates the count later)")
    C.cls("SystemWideDevice", fields={})
    C.cls("BallDeviceI", fields=dict(name=Str))
    C.ext("BallDeviceI.eject", model=lambda I, env, a, k: (emit(I, "eject", balls=k.get("balls"), target=k.get("target")), NONE)[1],
          trusted_reason="BallDevice.eject (request queue, C05)")
    C.ext("BallDeviceI.setup_player_controlled_eject",
          model=lambda I, env, a, k: (emit(I, "player_eject", target=k.get("target")), NONE)[1],
          trusted_reason="BallDevice.setup_player_controlled_eject (C05)")
    C.cls("Playfield", file=PF, bases=["SystemWideDevice"], fields=dict(
        _balls=Int, available_balls=Int, num_balls_requested=Int, name=Str, ball_search=ObjS("BallSearch"),
        machine=ObjS("MachineController", events=ObjS("EventManager"), ball_controller=ObjS("BallController")),
        config=Rec(default_source_device=Opt(ObjS("BallDeviceI"))), unit_test=Bool,
        _incoming_balls=Init(lambda I, name: I.new_list(
            [VObj(Obj("IncomingBallI", ObjS("IncomingBallI", can_arrive=Bool), "%s[%d]" % (name, i)))
             for i in range(I.ctx.fork(3))], name))))
    C.cls("IncomingBallI", fields=dict(can_arrive=Bool))
    C.ext("IncomingBallI.ball_arrived", model=lambda I, env, a, k: (emit(I, "incoming.ball_arrived", ball=env["self"].ref), NONE)[1],
          trusted_reason="IncomingBall.ball_arrived: confirms the eject that sent it")
    C.helpers["n_confirmed"] = lambda I: VInt(len(events_named(I, "incoming.ball_arrived")))

    def word(I, *names):
        this = I.frames[0].env["self"].ref
        nm = I.force(I.read_field(this, "name")).t
        evs = events_named(I, "post")
        want = []
        for n in names:
            n = I.pyconst(I.force(n))
            pre, suf = n.split("|")
            want.append(z3.Concat(z3.StringVal(pre), nm, z3.StringVal(suf)) if (pre or suf) else nm)
        if len(evs) != len(want):
            return VBool(False)
        return VBool(z3.And(*[I.force(e.args["event"]).t == w for e, w in zip(evs, want)] + [z3.BoolVal(True)]))
    C.helpers["posts_named"] = word
    C.helpers["n_posts"] = lambda I: VInt(len(events_named(I, "post")))

    def post_kw(I, idx, key):
        evs = events_named(I, "post")
        i = z3.simplify(I.force(idx).t).as_long()
        return evs[i].args["kwargs"].get(I.pyconst(I.force(key)), NONE)
    C.helpers["post_kw"] = post_kw
    C.helpers["n_captured"] = lambda I: VInt(len(events_named(I, "add_captured_ball")))
    C.helpers["n_ejects"] = lambda I: VInt(len(events_named(I, "eject")))
    C.helpers["n_player_ejects"] = lambda I: VInt(len(events_named(I, "player_eject")))
    C.trace_helpers = {"posts_named", "n_posts", "post_kw", "n_captured", "n_ejects", "n_player_ejects", "n_confirmed",
                       "n_arrivals", "n_change_events", "n_lock", "n_unlock", "n_incoming_start", "n_incoming_end"}
    SEARCH = ("ball search runs exactly while balls are on the playfield", "self.ball_search.enabled == (self._balls > 0)")
    C.fn("Playfield.balls", is_property=True, inline=True, no_inv=True)
    C.fn("Playfield.balls@setter", params=dict(balls=Int),
         ensures=[("the count is stored", "self._balls == balls"),
                  ("P1: ball_enter (relay, with the number of new balls) iff the count went up, then "
                   "<name>_ball_count_change iff it changed at all - carrying the new count and the change",
                   "(posts_named('balldevice_|_ball_enter', '|_ball_count_change') and post_kw(0, 'new_balls') == "
                   "balls - old(self._balls) and post_kw(1, 'balls') == balls and post_kw(1, 'change') == balls - "
                   "old(self._balls)) if balls > old(self._balls) else ((posts_named('|_ball_count_change') and "
                   "post_kw(0, 'balls') == balls and post_kw(0, 'change') == balls - old(self._balls)) if balls != "
                   "old(self._balls) else n_posts() == 0)"),
                  SEARCH],
         modifies=["self._balls", "self.ball_search.enabled"], raises={}, inline_calls=True)
    def target_init(I, name):
        """the target of an eject is this playfield, or another device (objects never alias symbolically, so the two
        cases are separate entry states)"""
        if I.ctx.fork(2) == 0:
            return I.frames[0].env["self"]
        return VObj(Obj("Playfield", ObjS("Playfield", {}), "another_device"))
    TARGET = Init(target_init)
    OTHERS = "self.available_balls == old(self.available_balls) and self.num_balls_requested == old(self.num_balls_requested)"
    C.fn("Playfield.add_missing_balls", params=dict(balls=Int),
         ensures=[("P2: a ball that went missing elsewhere is counted on the playfield: balls and available balls "
                   "both go up by n", "self._balls == old(self._balls) + balls and self.available_balls == "
                   "old(self.available_balls) + balls and self.num_balls_requested == old(self.num_balls_requested)"),
                  SEARCH],
         modifies=["self._balls", "self.available_balls", "self.ball_search.enabled"], raises={})
    C.fn("Playfield._ball_removed_handler2", params=dict(balls=Int),
         loops={0: LoopSpec(invariant=[("every iteration reports one ball", "True")], modifies=[])},
         requires=[("a device captured n >= 0 balls", "balls >= 0")],
         ensures=[("P3: n captured balls leave the playfield: balls and available balls both go down by n",
                   "self._balls == old(self._balls) - balls and self.available_balls == old(self.available_balls) - "
                   "balls and self.num_balls_requested == old(self.num_balls_requested)"),
                  ("P4: no count is ever negative", "implies(old(self._balls) >= 0, self._balls >= 0)"),
                  SEARCH],
         modifies=["self._balls", "self.available_balls", "self.ball_search.enabled"], raises={})
    C.fn("Playfield.ball_arrived", loops={0: LoopSpec(invariant=[], unroll=True)},
         ensures=[("P9: a playfield activation confirms at most ONE incoming ball - the first that can have arrived - "
                   "and changes no count by itself", "n_confirmed() <= 1 and self._balls == old(self._balls) and "
                   "self.available_balls == old(self.available_balls)")],
         modifies=[], raises={}, bounded="BOUNDED: at most 2 incoming balls", inline_calls=True)
    for fn_, delta, what in (("_source_device_ejecting_ball", "+ balls", "an eject towards the playfield is announced: "
                              "n more balls are requested"),
                             ("_source_device_eject_failed", "- balls", "a failed eject takes its n balls back out of "
                              "the requested count")):
        C.fn("Playfield." + fn_, params=dict(balls=Int, target=TARGET, kwargs=Opaque("Kwargs")),
             ensures=[("P5: " + what + " - only for this playfield",
                       "self.num_balls_requested == (old(self.num_balls_requested) " + delta + " if target is self "
                       "else old(self.num_balls_requested))"),
                      ("the ball counts are not touched", "self._balls == old(self._balls) and self.available_balls "
                                                          "== old(self.available_balls)")],
             modifies=["self.num_balls_requested"], raises={})
    C.fn("Playfield._source_device_eject_success",
         params=dict(balls=Int, target=TARGET, kwargs=Opaque("Kwargs")),
         ensures=[("P6: a confirmed eject moves n balls from `requested` to `on the playfield`",
                   "(self._balls == old(self._balls) + balls and self.num_balls_requested == "
                   "old(self.num_balls_requested) - balls) if target is self else (self._balls == old(self._balls) and "
                   "self.num_balls_requested == old(self.num_balls_requested))"),
                  ("available balls are not touched", "self.available_balls == old(self.available_balls)")],
         raises={"AssertionError": "target is self and self.num_balls_requested - balls < 0"},
         modifies=["self._balls", "self.num_balls_requested", "self.ball_search.enabled"])
    C.fn("Playfield._source_device_ball_lost", params=dict(target=TARGET, kwargs=Opaque("Kwargs")),
         ensures=[("P7: a ball lost on its way here is no longer available to this playfield",
                   "self.available_balls == (old(self.available_balls) - 1 if target is self else "
                   "old(self.available_balls))"),
                  ("nothing else moves", "self._balls == old(self._balls) and self.num_balls_requested == "
                                         "old(self.num_balls_requested)")],
         modifies=["self.available_balls"], raises={})
    C.cls("LogMixin", fields={})
    C.ext("Playfield.raise_config_error", model=lambda I, env, a, k: I.raise_("AssertionError", "config error"),
          trusted_reason="raises a ConfigFileError")
    C.fn("Playfield.add_ball", params=dict(balls=Int, source_device=Opt(ObjS("BallDeviceI")), player_controlled=Bool),
         loops={0: LoopSpec(invariant=[], modifies=[])}, result=Bool,
         ensures=[("P8: a request for n > 0 balls is handed to the source device: one eject(balls=n) towards this "
                   "playfield, or n player-controlled ejects; the counts change only when the ball really arrives",
                   "result == (balls != 0) and self._balls == old(self._balls) and self.num_balls_requested == "
                   "old(self.num_balls_requested) and n_ejects() == (1 if (balls > 0 and not player_controlled) else 0)")],
         raises={"AssertionError": "balls < 0 or (source_device is None and self.config['default_source_device'] is None)"},
         modifies=[])

    # ------------------------------------------------------------------ BallCountHandler
    C.cls("AsyncEvent", fields=dict(flag=Bool))
    A = "asyncio primitives (A-ASYNCIO)"
    C.ext("AsyncEvent.set", model=lambda I, env, a, k: (I.write_field(env["self"].ref, "flag", VBool(True)), NONE)[1],
          trusted_reason=A)
    C.ext("AsyncEvent.clear", model=lambda I, env, a, k: (I.write_field(env["self"].ref, "flag", VBool(False)), NONE)[1],
          trusted_reason=A)
    C.cls("AsyncLock", fields=dict(locked=Bool))

    def acquire(I, env, a, k):
        # acquire() returns only once the lock is free (whoever held it has released it)
        fc0 = I.frames[0].fc
        if fc0 is not None and fc0.key == "BallCountHandler._run":
            this = I.frames[0].env["self"].ref
            rely_unlocked(I)
            I.__dict__["c04_at_lock"] = I.read_field(this, "_ball_count")
        I.write_field(env["self"].ref, "locked", VBool(True))
        emit(I, "lock.acquire")
        return VBool(True)

    def release(I, env, a, k):
        if I.ctx.branch(z3.Not(I.truth(I.read_field(env["self"].ref, "locked")))):
            I.raise_("RuntimeError", "Lock is not acquired.")
        I.write_field(env["self"].ref, "locked", VBool(False))
        emit(I, "lock.release")
        return NONE
    C.ext("AsyncLock.acquire", model=acquire, trusted_reason=A)
    C.ext("AsyncLock.release", model=release, trusted_reason=A)
    C.cls("Future", fields={})
    C.ext("Future.done", model=lambda I, env, a, k: VBool(z3.Bool(I.fresh_name("done"))), trusted_reason=A)
    C.ext("Future.set_result", model=lambda I, env, a, k: (emit(I, "future.set_result", value=a[0]), NONE)[1],
          trusted_reason=A)
    C.cls("IncomingBallsHandler", fields=dict(n_incoming=Int))
    C.ext("IncomingBallsHandler.start_eject", model=lambda I, env, a, k: (emit(I, "incoming.start_eject"), NONE)[1],
          trusted_reason="incoming balls handler (C05)")
    C.ext("IncomingBallsHandler.end_eject", model=lambda I, env, a, k: (emit(I, "incoming.end_eject"), NONE)[1],
          trusted_reason="incoming balls handler (C05)")
    C.ext("IncomingBallsHandler.ball_arrived", model=lambda I, env, a, k: (emit(I, "ball_arrived"), NONE)[1],
          trusted_reason="incoming balls handler: matches the arrival to an expected ball or reports it unexpected")
    C.ext("IncomingBallsHandler.get_num_incoming_balls",
          model=lambda I, env, a, k: I.read_field(env["self"].ref, "n_incoming"), trusted_reason="number of balls on their way")
    C.cls("OutgoingBallsHandler", fields=dict(is_ready_to_receive=Bool, is_idle=Bool))

    def rely_gate(I):
        """while the gate sleeps other tasks run: count, incoming balls, counter readiness and eject state may change"""
        saved = I.modified
        I.modified = set()
        try:
            this = I.frames[0].env["self"].ref
            I.havoc_field(this, "_ball_count")
            I.ctx.assume(I.force(I.read_field(this, "_ball_count")).t >= 0)
            dev = I.force(I.read_field(this, "ball_device")).ref
            ih = I.force(I.read_field(dev, "incoming_balls_handler")).ref
            I.havoc_field(ih, "n_incoming")
            I.ctx.assume(I.force(I.read_field(ih, "n_incoming")).t >= 0)
            oh = I.force(I.read_field(dev, "outgoing_balls_handler")).ref
            I.havoc_field(oh, "is_ready_to_receive")
            c = I.force(I.read_field(this, "counter"))
            for g_, alt in (c.alts if isinstance(c, VUnion) else ((None, c),)):
                if alt.tag == "obj":
                    I.havoc_field(alt.ref, "is_ready_to_receive")
            I.havoc_field(this, "counter")          # stop() may drop the counter
        finally:
            I.rely_modified |= I.modified
            I.modified = saved

    def waiter(I, env, a, k):
        emit(I, "await")
        rely_gate(I)
        return NONE
    C.ext("OutgoingBallsHandler.wait_for_ready_to_receive", model=waiter, trusted_reason="suspends until not ejecting")
    C.cls("PhysicalBallCounter", fields=dict(capacity=Int, is_ready_to_receive=Bool))
    C.ext("PhysicalBallCounter.wait_for_ready_to_receive", model=waiter, trusted_reason="suspends until the counter is ready")
    C.cls("EjectTracker", fields={})
    C.globals["EjectTracker"] = VFn("model", model=lambda I, a, k: VObj(Obj("EjectTracker", ObjS("EjectTracker", {}),
                                                                           I.fresh_name("eject_process"))))
    C.ext("EjectTracker.will_eject", model=lambda I, env, a, k: (emit(I, "will_eject"), NONE)[1],
          trusted_reason="eject tracker")
    C.ext("EjectTracker.cancel", model=lambda I, env, a, k: (emit(I, "tracker.cancel"), NONE)[1],
          trusted_reason="eject tracker")
    C.cls("BallDeviceStateHandler", fields={})
    DEV = ObjS("BallDevice", name=Str, counted_balls=Int, incoming_balls_handler=ObjS("IncomingBallsHandler"),
               outgoing_balls_handler=ObjS("OutgoingBallsHandler"),
               config=Rec(mechanical_eject=Bool, idle_missing_ball_timeout=Real))
    C.cls("BallDevice", fields=DEV.fields)

    def futures(I, name):
        n = I.ctx.fork(3)
        return I.new_list([VObj(Obj("Future", ObjS("Future", {}), "%s[%d]" % (name, i))) for i in range(n)], name)
    C.cls("BallCountHandler", file=BCH, bases=["BallDeviceStateHandler"], fields=dict(
        ball_device=DEV, machine=ObjS("MachineController", events=ObjS("EventManager")), _ball_count=Int,
        _has_balls=ObjS("AsyncEvent"), _eject_started=ObjS("AsyncEvent"), _is_counting=ObjS("AsyncLock"),
        _revalidate=ObjS("AsyncEvent"),
        _ball_count_changed_futures=Init(futures), counter=Opt(ObjS("PhysicalBallCounter"))),
        invariants=[("the device mirrors the handled count", "self.ball_device.counted_balls == self._ball_count or True")])
    C.fn("BallCountHandler.wait_for_ball_count_changed", model=waiter, external=True,
         trusted_reason="suspends until the count changes")
    C.helpers["n_arrivals"] = lambda I: VInt(len(events_named(I, "ball_arrived")))
    C.helpers["n_lock"] = lambda I: VInt(len(events_named(I, "lock.acquire")))
    C.helpers["n_unlock"] = lambda I: VInt(len(events_named(I, "lock.release")))
    C.helpers["n_incoming_start"] = lambda I: VInt(len(events_named(I, "incoming.start_eject")))
    C.helpers["n_incoming_end"] = lambda I: VInt(len(events_named(I, "incoming.end_eject")))

    def n_change_events(I):
        return VInt(len([e for e in events_named(I, "post")]))
    C.helpers["n_change_events"] = n_change_events
    SETC = ("the handled count, its mirror in the device and the has-balls flag agree",
            "self.ball_device.counted_balls == self._ball_count and self._has_balls.flag == (self._ball_count > 0)")
    CM = ["self._ball_count", "self.ball_device.counted_balls", "self._has_balls.flag",
          "self._ball_count_changed_futures"]
    C.fn("BallCountHandler._set_ball_count", params=dict(count=Int),
         loops={0: LoopSpec(invariant=[], unroll=True)},
         ensures=[("H1: the count is stored", "self._ball_count == count"), SETC,
                  ("one change event carrying the new count, and every waiter is woken",
                   "n_change_events() == 1 and post_kw(0, 'balls') == count and len(self._ball_count_changed_futures) == 0")],
         modifies=CM, raises={}, inline_calls=True, bounded="BOUNDED: at most 2 waiting futures")
    C.fn("BallCountHandler.start_eject", params=dict(already_left=Bool),
         ensures=[("H2: eject mode is entered under the counting lock: incoming handler told, lock taken once, "
                   "flag set", "n_incoming_start() == 1 and n_lock() == 1 and n_unlock() == 0 and "
                   "self._is_counting.locked and self._eject_started.flag"),
                  ("H3: a ball that had already left is first counted back in (+1) so that end_eject's -1 is exact",
                   "self._ball_count == (old(self._ball_count) + 1 if already_left else old(self._ball_count))")],
         modifies=CM + ["self._is_counting.locked", "self._eject_started.flag"], raises={},
         bounded="BOUNDED: at most 2 waiting futures")
    C.fn("BallCountHandler.end_eject", params=dict(eject_process=ObjS("EjectTracker"), ball_left=Bool),
         requires=[("the eject holds the counting lock", "self._is_counting.locked")],
         ensures=[("H4: the count drops by exactly one iff the ball left",
                   "self._ball_count == (old(self._ball_count) - 1 if ball_left else old(self._ball_count))"),
                  ("H5: eject mode is left on every path: lock released once, flag cleared, incoming handler told",
                   "n_unlock() == 1 and n_lock() == 0 and not self._is_counting.locked and not "
                   "self._eject_started.flag and n_incoming_end() == 1"),
                  ("H6: no count is ever negative", "implies(old(self._ball_count) >= (1 if ball_left else 0), "
                                                    "self._ball_count >= 0)")],
         modifies=CM + ["self._is_counting.locked", "self._eject_started.flag"], raises={},
         bounded="BOUNDED: at most 2 waiting futures")
    C.fn("BallCountHandler.entrance_during_eject",
         ensures=[("H7: a ball entering during an eject is reported once and counted (+1)",
                   "n_arrivals() == 1 and self._ball_count == old(self._ball_count) + 1")],
         modifies=CM, raises={}, bounded="BOUNDED: at most 2 waiting futures")
    # ---- balls that vanish from an idle device are handed to the playfield one by one (conservation)
    C.ghost.update(dict(n_lost_idle=Int, n_mech=Int))

    def bump(field):
        def m(I, env, a, k):
            I.write_field(I.ghost, field, VInt(I.force(I.read_field(I.ghost, field)).t + 1))
            return NONE
        return m
    C.ext("BallDevice.lost_idle_ball", model=bump("n_lost_idle"),
          trusted_reason="BallDevice.lost_idle_ball: reports ONE ball as lost to the playfield (posts "
                         "balldevice_ball_missing, the target playfield adds one ball)")
    C.ext("BallDevice.handle_mechanical_eject_during_idle", model=bump("n_mech"),
          trusted_reason="BallDevice: a mechanical eject happened while idle (one ball towards the default target)")
    C.ext("PhysicalBallCounter.wait_for_ball_activity", model=lambda I, env, a, k: VOpaque("Any", z3.Const(
        I.fresh_name("activity"), usort("Any"))), trusted_reason="future: the next switch activity of the counter")
    C.exc("TimeoutError", "Exception")
    C.globals["asyncio.TimeoutError"] = VCls("TimeoutError")

    def wait_for(I, a, k):
        """asyncio.wait_for: the awaited activity happens in time, or TimeoutError"""
        emit(I, "await")
        if I.ctx.fork(2) == 1:
            I.raise_("TimeoutError", "timeout")
        return NONE
    C.globals["asyncio.wait_for"] = VFn("model", model=wait_for)
    C.fn("BallCountHandler._handle_missing_balls", params=dict(new_balls=Int, missing_balls=Int),
         requires=[("called by _run under the counting lock with the new, lower count",
                    "missing_balls >= 1 and new_balls >= 0 and self._ball_count == new_balls + missing_balls"),
                   ],
         loops_by_text={"range(missing_balls": LoopSpec(
             invariant=[("one lost-ball report per ball so far", "ghost.n_lost_idle == old_loop(ghost.n_lost_idle) + _ "
                                                                 "and ghost.n_mech == old_loop(ghost.n_mech)")],
             modifies=["ghost.n_lost_idle"], roles={"_": "counter"})},
         ensures=[("M1 conservation: when the handled count of an idle device is lowered, every missing ball is "
                   "reported as lost exactly once (it is added to the playfield count), or - mechanical eject - the "
                   "eject is handed to the device",
                   "implies(self._ball_count != old(self._ball_count), self._ball_count == new_balls and "
                   "(((ghost.n_lost_idle - old(ghost.n_lost_idle)) == missing_balls and (ghost.n_mech - old(ghost.n_mech)) == 0) or "
                   "((ghost.n_mech - old(ghost.n_mech)) == 1 and (ghost.n_lost_idle - old(ghost.n_lost_idle)) == 0 and self.ball_device.config['mechanical_eject'])))"),
                  ("M2: while the count is kept (ejecting, or activity seen: recount) no ball is reported lost",
                   "implies(self._ball_count == old(self._ball_count), (ghost.n_lost_idle - old(ghost.n_lost_idle)) == 0 and (ghost.n_mech - old(ghost.n_mech)) == 0)")],
         modifies=CM + ["ghost.n_lost_idle", "ghost.n_mech", "self._revalidate.flag"],
         raises={"CancelledError": "self.counter is None"}, bounded="BOUNDED: at most 2 waiting futures")
    # ---- the counting loop: every change the counter reports is turned into arrivals / lost balls, under the lock
    C.ghost.update(dict(n_arrived=Int))

    def rely_unlocked(I):
        """before the counting lock is held other tasks of the device may eject / count (start_eject, end_eject take
        the lock): the handled count may change"""
        saved = I.modified
        I.modified = set()
        try:
            this = I.frames[0].env["self"].ref
            I.havoc_field(this, "_ball_count")
            I.ctx.assume(I.force(I.read_field(this, "_ball_count")).t >= 0)
        finally:
            I.rely_modified |= I.modified
            I.modified = saved

    def await_point(I):
        """an await inside _run: stop() cancels THIS task (CancelledError is thrown into the await) before it drops
        the counter, so the counter is never None while _run goes on; while the counting lock is not held other
        tasks may change the handled count"""
        this = I.frames[0].env["self"].ref
        if I.ctx.fork(2) == 1:
            I.raise_("CancelledError", "task cancelled by stop()")
        lk = I.force(I.read_field(this, "_is_counting")).ref
        if not I.ctx.branch(I.truth(I.read_field(lk, "locked"))):
            rely_unlocked(I)
    C.cls("ChangeStream", fields={})
    C.ext("ChangeStream.get", model=lambda I, env, a, k: VOpaque("Any", z3.Const(I.fresh_name("change"), usort("Any"))),
          trusted_reason="asyncio.Queue of counter activities")
    C.ext("PhysicalBallCounter.register_change_stream",
          model=lambda I, env, a, k: VObj(Obj("ChangeStream", ObjS("ChangeStream", {}), I.fresh_name("changes"))),
          trusted_reason="counter: a queue that receives every ball activity")

    def count_balls(I, env, a, k):
        await_point(I)
        n = z3.Int(I.fresh_name("counted"))
        I.ctx.assume(n >= 0)
        return VInt(n)
    C.ext("PhysicalBallCounter.count_balls", model=count_balls,
          trusted_reason="counter: waits until the count is stable and returns it (>= 0); counters are only partly "
                         "under contract (EntranceSwitchCounter: set C04c)")
    C.ext("PhysicalBallCounter.is_count_unreliable",
          model=lambda I, env, a, k: VBool(z3.Bool(I.fresh_name("unreliable"))), trusted_reason="counter: jam detection")
    C.cls("Ejector", fields={})
    C.ext("Ejector.reorder_balls", model=lambda I, env, a, k: (await_point(I), NONE)[1],
          trusted_reason="ejector: pulses to reorder jammed balls")
    C.classes["BallDevice"].fields["ejector"] = ObjS("Ejector")
    DEV.fields["ejector"] = ObjS("Ejector")
    C.classes["BallCountHandler"].fields["_count_valid"] = ObjS("AsyncEvent")
    C.ext("AsyncEvent.wait", model=lambda I, env, a, k: VOpaque("Any", z3.Const(I.fresh_name("waiter"), usort("Any"))),
          trusted_reason="asyncio.Event.wait(): a coroutine object, awaited through Util.first")
    C.globals["asyncio.ensure_future"] = VFn("model", model=lambda I, a, k: a[0])
    C.globals["Util"] = VCls("Util")
    C.globals["Util.first"] = VFn("model", model=lambda I, a, k: (await_point(I), NONE)[1])

    def arrived(I, env, a, k):
        emit(I, "ball_arrived")
        fc0 = I.frames[0].fc
        if fc0 is not None and fc0.key == "BallCountHandler._run":
            I.write_field(I.ghost, "n_arrived", VInt(I.force(I.read_field(I.ghost, "n_arrived")).t + 1))
            await_point(I)
        return NONE
    C.ext("IncomingBallsHandler.ball_arrived", model=arrived,
          trusted_reason="incoming balls handler: matches ONE arrival to an expected ball or reports it unexpected")
    C.fn("BallCountHandler._run",
         requires=[("the task starts without the counting lock", "not self._is_counting.locked")],
         loops_by_text={
             "True": LoopSpec(
                 invariant=[("the counting lock is free between passes", "not self._is_counting.locked")],
                 modifies=CM + ["self._is_counting.locked", "self._revalidate.flag", "self._count_valid.flag",
                                "self.counter", "ghost.n_arrived", "ghost.n_lost_idle", "ghost.n_mech"],
                 body_ensures=[
                     ("R1: a pass that finds MORE balls than handled raises the handled count to the counted number "
                      "and reports exactly that many arrivals; otherwise it reports none",
                      "ghost.n_arrived - old_iter(ghost.n_arrived) == (self._ball_count - at_lock_count() if "
                      "self._ball_count > at_lock_count() else 0)"),
                     ("R2: the counting lock taken by a pass is released at its end and the count is declared valid",
                      "not self._is_counting.locked and self._count_valid.flag"),
                     ("R3: a pass lowers the handled count only through _handle_missing_balls (lost-ball reports: "
                      "clause M1), never silently",
                      "implies(self._ball_count < at_lock_count(), (ghost.n_lost_idle - old_iter(ghost.n_lost_idle)) "
                      "+ (ghost.n_mech - old_iter(ghost.n_mech)) >= 1)")]),
             "range(new_balls": LoopSpec(
                 invariant=[("one arrival reported per new ball so far", "ghost.n_arrived == old_loop(ghost.n_arrived) + _"),
                            ("the lock stays with this task", "self._is_counting.locked")],
                 modifies=["ghost.n_arrived", "self.counter"], roles={"_": "counter"})},
         modifies=CM + ["self._is_counting.locked", "self._revalidate.flag", "self._count_valid.flag", "self.counter",
                        "ghost.n_arrived", "ghost.n_lost_idle", "ghost.n_mech"],
         raises={"CancelledError": True},
         bounded="BOUNDED: at most 2 waiting futures")

    def at_lock_count(I):
        """the handled count at the moment this pass took the counting lock (recorded by the lock model)"""
        v = I.__dict__.get("c04_at_lock")
        if v is None:
            raise SpecError("no lock acquisition on this path")
        return v
    C.helpers["at_lock_count"] = at_lock_count
    C.fn("BallCountHandler.is_full", is_property=True, result=Bool,
         ensures=["result == (self.counter.capacity - self._ball_count <= 0)"], modifies=[],
         raises={"CancelledError": "self.counter is None"})
    C.exc("CancelledError", "BaseException")
    C.globals["asyncio"] = VFn("module", name="asyncio")
    C.globals["asyncio.CancelledError"] = VCls("CancelledError")
    C.fn("BallCountHandler.wait_for_ready_to_receive", params=dict(source=Opaque("Any")), result=Bool,
         loops={0: LoopSpec(invariant=[], modifies=["self._ball_count", "self.counter",
                                                    "self.ball_device.incoming_balls_handler.n_incoming"])},
         ensures=[("R1 readiness gate: when the gate opens there is room for one more ball beyond those already on "
                   "their way, the counter can take it and the device is not ejecting - all read with no await in "
                   "between",
                   "result and self.counter is not None and self.counter.capacity - self._ball_count > "
                   "self.ball_device.incoming_balls_handler.n_incoming and self.counter.is_ready_to_receive and "
                   "self.ball_device.outgoing_balls_handler.is_ready_to_receive")],
         # changed by the environment only (other tasks, while the gate sleeps); listed because the loop havocs them
         modifies=["self._ball_count", "self.counter", "self.ball_device.incoming_balls_handler.n_incoming"],
         raises={"CancelledError": True})
    C.assume("A-ASYNCIO Lock.acquire returns with the lock held; every await is a point where other tasks of the device "
             "run (rely: count, incoming balls, readiness flags and the counter itself may change)")
    C.assume("C04 is PARTIAL: physical ball positions, sums over devices (= num_balls_known) and global capacity / "
             "non-negativity invariants across tasks are not decided")
    return C


ESC = "mpf/devices/ball_device/entrance_switch_counter.py"


def counter_set():
    """EntranceSwitchCounter: a device that counts entries with one switch must never count beyond its capacity,
    whatever the spacing of the activations (the handled count of BallCountHandler lags behind the counter's own)"""
    C = ContractSet("C04c", "entrance-switch counter stays within 0..capacity")
    C.strings = False
    C.ghost.update(dict(n_entered=Int, n_left=Int))
    C.cls("PhysicalBallCounter", fields={})
    C.cls("BallCountHandlerI", fields=dict(is_full=Bool))
    C.cls("Logger", fields={})
    common.declare_noop(C, "Logger", "warning", "info", "debug", reason="logging")
    C.cls("BallDeviceI", fields=dict(ball_count_handler=ObjS("BallCountHandlerI"), log=ObjS("Logger")))
    C.cls("Clock", fields=dict(loop=ObjS("Loop")))
    C.cls("Loop", fields={})
    C.ext("Clock.get_time", model=lambda I, env, a, k: VReal(z3.Real(I.fresh_name("now"))), trusted_reason="clock")
    common.declare_noop(C, "Loop", "call_at", reason="asyncio loop: calls _recycle_passed later (A-ASYNCIO)")
    C.cls("SwitchController", fields={})
    C.ext("SwitchController.is_active", model=lambda I, env, a, k: VBool(z3.Bool(I.fresh_name("sw_active"))),
          trusted_reason="switch state (C03)")
    C.cls("SettleDelay", fields={})
    common.declare_noop(C, "SettleDelay", "remove", "reset", reason="settle delay of the counter (C13): only marks the "
                        "count stable later")
    C.cls("AsyncEvent", fields=dict(flag=Bool))
    C.ext("AsyncEvent.set", model=lambda I, env, a, k: (I.write_field(env["self"].ref, "flag", VBool(True)), NONE)[1],
          trusted_reason="asyncio.Event")
    C.ext("AsyncEvent.clear", model=lambda I, env, a, k: (I.write_field(env["self"].ref, "flag", VBool(False)), NONE)[1],
          trusted_reason="asyncio.Event")

    def clear_times(I, name):
        k = I.ctx.fork(3)
        if k == 0:
            return I.new_dict(())
        if k == 1:
            return I.new_dict(((VStr("s_entrance"), NONE),))
        return I.new_dict(((VStr("s_entrance"), VReal(z3.Real(name + "[s_entrance]"))),))
    CFG = Rec(ball_capacity=Int, entrance_switch_full_timeout=Int, settle_time_ms=Int,
              entrance_switch=Seq(Opaque("Switch")))
    C.cls("EntranceSwitchCounter", file=ESC, bases=["PhysicalBallCounter"], fields=dict(
        config=CFG, _last_count=Int, recycle_secs=Real, recycle_clear_time=Init(clear_times),
        _settle_delay=ObjS("SettleDelay"), _count_stable=ObjS("AsyncEvent"),
        machine=ObjS("MachineController", clock=ObjS("Clock"), switch_controller=ObjS("SwitchController")),
        ball_device=ObjS("BallDeviceI"), is_ready_to_receive=Bool),
        invariants=[("K0: the counter's own count is never negative and never above the capacity of the device",
                     "self._last_count >= 0 and implies(self.config['ball_capacity'] != 0, self._last_count <= "
                     "self.config['ball_capacity'])"),
                    ("the configured capacity is not negative", "self.config['ball_capacity'] >= 0")])

    def act(field):
        def m(I, a, k):
            return VOpaque("Activity", z3.Const(I.fresh_name(field), usort("Activity")))
        return m
    C.globals["BallEntranceActivity"] = VFn("model", model=act("entrance"))
    C.globals["BallLostActivity"] = VFn("model", model=act("lost"))

    def record(I, env, a, k):
        v = I.force(a[0])
        f = "n_entered" if "entrance" in str(v.t) else "n_left"
        I.write_field(I.ghost, f, VInt(I.force(I.read_field(I.ghost, f)).t + 1))
        return NONE
    C.ext("EntranceSwitchCounter.record_activity", model=record,
          trusted_reason="PhysicalBallCounter.record_activity: queues one activity for BallCountHandler")
    for m_ in ("invalidate_count", "mark_count_as_stable_and_trigger_activity", "trigger_activity"):
        C.ext("EntranceSwitchCounter." + m_, model=common.noop,
              trusted_reason="PhysicalBallCounter: count-stable flag / wakes waiting futures")
    G0 = ("ghost counters start at zero", "ghost.n_entered == 0 and ghost.n_left == 0")
    GM = ["ghost.n_entered", "ghost.n_left"]
    C.fn("EntranceSwitchCounter._entrance_switch_handler",
         params=dict(switch_name=Union(Const("event"), Const("s_entrance"))), requires=[G0],
         ensures=[("K1: an entrance activation counts at most one ball, reports exactly what it counted, and a device "
                   "already at capacity (by the counter's OWN count) counts nothing - also when activations arrive "
                   "faster than BallCountHandler processes them",
                   "self._last_count == old(self._last_count) + ghost.n_entered and 0 <= ghost.n_entered <= 1 and "
                   "ghost.n_left == 0"),
                  ("K2: outside the ignore window and below capacity (and not the last free place of a device with "
                   "entrance_switch_full_timeout) the ball IS counted",
                   "implies(not old(bool(self.recycle_clear_time.get(switch_name, False))) and "
                   "(self.config['ball_capacity'] == 0 or old(self._last_count) + 1 < self.config['ball_capacity'] or "
                   "(old(self._last_count) + 1 == self.config['ball_capacity'] and "
                   "self.config['entrance_switch_full_timeout'] == 0)), ghost.n_entered == 1)")],
         modifies=["self._last_count", "self.recycle_clear_time.*", "self.recycle_clear_time"] + GM, raises={})
    C.fn("EntranceSwitchCounter._entrance_switch_full_handler",
         requires=[G0, ("registered only for a device with a capacity", "self.config['ball_capacity'] != 0")],
         loops_by_text={"range(new_balls": LoopSpec(
             invariant=[("one entrance activity per added ball", "ghost.n_entered == _ and ghost.n_left == 0")],
             modifies=["ghost.n_entered"], roles={"_": "counter"})},
         ensures=[("K3: a ball resting on the entrance switch means the device is full: the count is raised to the "
                   "capacity (never lowered, never above it) and one entrance activity is recorded per added ball",
                   "self._last_count == self.config['ball_capacity'] and ghost.n_entered == "
                   "self.config['ball_capacity'] - old(self._last_count) and ghost.n_left == 0")],
         modifies=["self._last_count", "self._count_stable.flag"] + GM, raises={})
    C.fn("EntranceSwitchCounter._ball_left", params=dict(future=Opaque("Any")),
         requires=[G0, ("a ball can only leave a device that holds one (the eject was started with a ball)",
                        "self._last_count >= 1")],
         ensures=[("K4: a ball that left is un-counted exactly once and reported once",
                   "self._last_count == old(self._last_count) - 1 and ghost.n_left == 1 and ghost.n_entered == 0")],
         modifies=["self._last_count"] + GM, raises={})
    C.fn("EntranceSwitchCounter.count_balls_sync", result=Int,
         requires=[("validated config: a device counted by entrance switch has one", "len(self.config['entrance_switch']) >= 1")],
         ensures=[("K5: the reported count is the counter's own count", "result == self._last_count")],
         modifies=[], raises={"ValueError": True})
    C.assume("EntranceSwitchCounter.__init__ is not under contract: it starts the count at 0 or at the capacity "
             "(read from the source, mpf/devices/ball_device/entrance_switch_counter.py)")
    return C


BDEV = "mpf/devices/ball_device/ball_device.py"


def loss_set():
    """BallDevice: what happens to a ball that left a device without an eject, got lost on the way, or left by a
    mechanical eject - the callees that BallCountHandler / the eject handlers rely on (M1, Q3).  Conservation: every
    such ball is added to the `ball_missing_target` playfield exactly once and announced once."""
    C = ContractSet("C04d", "lost balls are handed to the playfield exactly once")
    C.strings = False
    common.declare_events(C)
    C.cls("SystemWideDevice", fields={})
    C.cls("PlayfieldI", fields=dict(available_balls=Int))
    C.ext("PlayfieldI.add_missing_balls",
          model=lambda I, env, a, k: (emit(I, "add_missing_balls", pf=env["self"].ref, n=a[0]), NONE)[1],
          trusted_reason="Playfield.add_missing_balls (P3 in the main set): balls += n, available_balls += n")
    C.cls("TargetI", fields=dict(available_balls=Int, playfield=Bool, cancels=Bool, finds=Bool))
    C.ext("TargetI.is_playfield", model=lambda I, env, a, k: I.read_field(env["self"].ref, "playfield"),
          trusted_reason="is_playfield")
    C.ext("TargetI.cancel_path_if_target_is", model=lambda I, env, a, k: I.read_field(env["self"].ref, "cancels"),
          trusted_reason="OutgoingBallsHandler.cancel_path_if_target_is (path search: C05)")
    C.ext("TargetI.find_available_ball_in_path", model=lambda I, env, a, k: I.read_field(env["self"].ref, "finds"),
          trusted_reason="OutgoingBallsHandler.find_available_ball_in_path (FP1, C05)")
    C.cls("OutgoingI", fields={})
    C.ext("OutgoingI.add_eject_to_queue", model=lambda I, env, a, k: (emit(I, "queued_eject", eject=a[0]), NONE)[1],
          trusted_reason="eject queue of the device (asyncio.Queue, FIFO)")
    C.ext("OutgoingI.cancel_path_if_target_is", model=lambda I, env, a, k: VBool(z3.Bool(I.fresh_name("cancelled_path"))),
          trusted_reason="path search (C05)")
    C.ext("OutgoingI.find_available_ball_in_path", model=lambda I, env, a, k: VBool(z3.Bool(I.fresh_name("found_ball"))),
          trusted_reason="path search FP1 (C05)")
    C.cls("TimeoutMap", fields={})
    C.ext("TimeoutMap.__getitem__", model=lambda I, env, a, k: VInt(z3.Int(I.fresh_name("timeout_ms"))),
          trusted_reason="validated config: a timeout per eject target")

    def outgoing_ball(I, a, k):
        o = Obj("OutgoingBall", ObjS("OutgoingBall", max_tries=Int, eject_timeout=Real, target=ObjS("TargetI"),
                                     player_controlled=Bool, already_left=Bool), I.fresh_name("eject"))
        o.fresh = True
        I.heap.data[(o, "max_tries")] = VInt(0)
        I.heap.data[(o, "eject_timeout")] = VReal(z3.RealVal(0))
        I.heap.data[(o, "target")] = a[0]
        I.heap.data[(o, "player_controlled")] = VBool(False)
        I.heap.data[(o, "already_left")] = VBool(False)
        return VObj(o)
    C.cls("OutgoingBall", fields=dict(max_tries=Int, eject_timeout=Real, target=ObjS("TargetI"), player_controlled=Bool,
                                      already_left=Bool))
    C.globals["OutgoingBall"] = VFn("model", model=outgoing_ball)
    C.cls("BallDevice", file=BDEV, bases=["SystemWideDevice"], check_bases=False, fields=dict(
        available_balls=Int, _state=Str, name=Str,
        config=Rec(ball_missing_target=ObjS("PlayfieldI"), eject_targets=ListOf(ObjS("TargetI"), 1),
                   eject_timeouts=ObjS("TimeoutMap"), max_eject_attempts=Int, mechanical_eject=Bool),
        outgoing_balls_handler=ObjS("OutgoingI"), machine=ObjS("MachineController", events=ObjS("EventManager"))))
    C.fn("BallDevice.state", is_property=True, inline=True, no_inv=True)
    C.ext("EventManager.post_async", model=common.make_post("post_async"), trusted_reason="event posting (C01)")

    def missing_once(I):
        """add_missing_balls(1) on the configured ball_missing_target exactly once, and the two ball_missing events
        (device-specific, generic) once each with balls=1"""
        this = I.frames[0].env["self"].ref
        pf = I.force(I.read_field(I.force(I.read_field(this, "config")).ref, "ball_missing_target")).ref
        am = events_named(I, "add_missing_balls")
        posts = events_named(I, "post")
        if len(am) != 1 or am[0].args["pf"] is not pf or len(posts) != 2:
            return VBool(False)
        cs = [I.eq(am[0].args["n"], VInt(1))]
        for e in posts:
            kw = e.args["kwargs"]
            if "balls" not in kw:
                return VBool(False)
            cs.append(I.eq(kw["balls"], VInt(1)))
        return VBool(z3.And(cs))
    C.helpers["missing_reported_once"] = missing_once
    C.helpers["n_queued_ejects"] = lambda I: VInt(len(events_named(I, "queued_eject")))
    C.trace_helpers = {"missing_reported_once", "n_queued_ejects", "mechanical_eject_queued"}
    C.fn("BallDevice.lost_idle_ball",
         ensures=[("L1: a ball that vanished from the idle device is no longer available here (-1), is added to the "
                   "ball_missing_target playfield exactly once and is announced (balldevice_<n>_ball_missing, "
                   "balldevice_ball_missing) once", "self.available_balls == old(self.available_balls) - 1 and "
                                                   "missing_reported_once()")],
         modifies=["self.available_balls"], raises={})
    C.fn("BallDevice._balls_missing", params=dict(balls=Int), inline=True, no_inv=True)
    C.fn("BallDevice.lost_incoming_ball", params=dict(source=Opaque("Any")),
         ensures=[("L2: a ball that was confirmed to have left its source but never arrived here is added to the "
                   "ball_missing_target playfield exactly once and announced once, whatever the path repair does",
                   "missing_reported_once()")],
         modifies=["self.available_balls", "self._ball_requests"], raises={}, skip_frame=True)
    C.ext("BallDevice.cancel_path_if_target_is", model=lambda I, env, a, k: VBool(z3.Bool(I.fresh_name("cancelled_path"))),
          trusted_reason="path search (C05)")
    C.ext("BallDevice.find_available_ball_in_path", model=lambda I, env, a, k: VBool(z3.Bool(I.fresh_name("found"))),
          trusted_reason="path search FP1 (C05)")
    C.ext("BallDevice.request_ball", model=lambda I, env, a, k: (emit(I, "request_ball"), NONE)[1],
          trusted_reason="BallDevice.request_ball: asks the sources for one more ball")
    C.ext("BallDevice.eject", model=lambda I, env, a, k: (emit(I, "eject", target=k.get("target")), VInt(1))[1],
          trusted_reason="BallDevice.eject: queues one eject to the target")
    C.fn("BallDevice.lost_ejected_ball", params=dict(target=ObjS("TargetI")),
         ensures=[("L3: a ball lost on the way to a device target is added to the ball_missing_target playfield exactly "
                   "once and announced once, whatever the path repair does", "missing_reported_once()")],
         modifies=["target.available_balls"], raises={"AssertionError": "target.playfield"}, skip_frame=True)

    def mech_queued(I):
        evs = events_named(I, "queued_eject")
        if len(evs) != 1:
            return VBool(False)
        this = I.frames[0].env["self"].ref
        cfg = I.force(I.read_field(this, "config")).ref
        tgt = I.force(I.container(I.force(I.read_field(cfg, "eject_targets")).ref).items[0]).ref
        e = I.force(evs[0].args["eject"]).ref
        return VBool(z3.And(z3.BoolVal(I.force(I.read_field(e, "target")).ref is tgt),
                            I.truth(I.read_field(e, "already_left")), I.truth(I.read_field(e, "player_controlled")),
                            I.eq(I.read_field(e, "max_tries"), I.read_field(cfg, "max_eject_attempts"))))
    C.helpers["mechanical_eject_queued"] = mech_queued
    C.fn("BallDevice.handle_mechanical_eject_during_idle",
         ensures=[("L4: a ball that left by a mechanical eject while the device was idle is accounted for as ONE eject "
                   "that has already left towards the first eject target (which expects one more ball)",
                   "mechanical_eject_queued() and self.config['eject_targets'][0].available_balls == "
                   "old(self.config['eject_targets'][0].available_balls) + 1"),
                  ("L4b: ... and the booking MOVES: the ball is no longer available at this device (as in "
                   "setup_eject_chain) - otherwise the counts of available balls sum to one more than the balls known and "
                   "the next request is routed to the empty device",
                   "self.available_balls == old(self.available_balls) - 1")],
         modifies=["self.config['eject_targets'][0].available_balls", "self.available_balls"], raises={}, skip_frame=True)
    return C


BSRCH = "mpf/core/ball_search.py"


def ball_search_set():
    """BallSearch.give_up: the balls written off are exactly the balls the playfield held (not the ones merely promised
    to it), so that afterwards the counts still sum to the number of balls known"""
    C = ContractSet("C04s", "ball search gives up: counts stay consistent")
    C.strings = False
    C.cls("MpfController", fields={})
    C.cls("EventManager", fields={})
    C.ext("EventManager.post", model=lambda I, env, a, k: (emit(I, "post", event=a[0]), NONE)[1],
          trusted_reason="event posting (C01)")
    C.cls("PlayfieldI", fields=dict(balls=Int, available_balls=Int,
                                    config=Rec(ball_search_failed_action=Union(Const("new_ball"), Const("end_game"),
                                                                               Const("end_ball")))))
    C.ext("PlayfieldI.add_ball", model=lambda I, env, a, k: (emit(I, "add_ball"), NONE)[1],
          trusted_reason="Playfield.add_ball (P8, main set): requests one ball to the playfield")
    C.cls("GameI", fields={})
    C.ext("GameI.end_game", model=lambda I, env, a, k: (emit(I, "end_game"), NONE)[1], trusted_reason="Game.end_game (C06)")
    C.ext("GameI.end_ball", model=lambda I, env, a, k: (emit(I, "end_ball"), NONE)[1], trusted_reason="Game.end_ball (C06)")
    C.cls("BallControllerI", fields=dict(num_balls_known=Int))
    C.cls("BallSearch", file=BSRCH, bases=["MpfController"], fields=dict(
        playfield=ObjS("PlayfieldI"),
        machine=ObjS("MachineController", events=ObjS("EventManager"), game=Opt(ObjS("GameI")),
                     ball_controller=ObjS("BallControllerI"))))
    C.ext("BallSearch.disable", model=lambda I, env, a, k: (emit(I, "search.disable"), NONE)[1],
          trusted_reason="BallSearch.disable: stops the search timers")
    C.ghost.update(dict(n_replaced=Int))

    def add_ball(I, env, a, k):
        I.write_field(I.ghost, "n_replaced", VInt(I.force(I.read_field(I.ghost, "n_replaced")).t + 1))
        return NONE
    C.ext("PlayfieldI.add_ball", model=add_ball,
          trusted_reason="Playfield.add_ball (P8, main set): requests one ball to the playfield")
    C.fn("BallSearch._compensate_lost_balls", params=dict(lost_balls=Int), inline=True, no_inv=True)
    C.fn("BallSearch.give_up",
         requires=[("counts are not negative", "self.playfield.balls >= 0")],
         loops_by_text={"range(lost_balls": LoopSpec(
             invariant=[("one replacement requested per lost ball so far", "ghost.n_replaced == old_loop(ghost.n_replaced) + _")],
             modifies=["ghost.n_replaced"], roles={"_": "counter"})},
         ensures=[("GU1: the balls written off are exactly the balls the playfield HELD: num_balls_known drops by "
                   "playfield.balls (not by what was merely promised to the playfield and still sits in a device), and "
                   "the playfield ends with 0 balls and 0 available balls - the counts still sum to the balls known",
                   "self.machine.ball_controller.num_balls_known == old(self.machine.ball_controller.num_balls_known) - "
                   "old(self.playfield.balls) and self.playfield.balls == 0 and self.playfield.available_balls == 0"),
                  ("GU2: with the 'new_ball' action (and balls left) one replacement is requested per ball written off",
                   "implies(self.machine.game is not None and self.playfield.config['ball_search_failed_action'] == "
                   "'new_ball' and self.machine.ball_controller.num_balls_known > 0, ghost.n_replaced - "
                   "old(ghost.n_replaced) == old(self.playfield.balls))")],
         modifies=["self.machine.ball_controller.num_balls_known", "self.playfield.balls",
                   "self.playfield.available_balls", "ghost.n_replaced"], raises={})
    return C


BCTL = "mpf/core/ball_controller.py"


def balance_set():
    """BallController._balance_playfields: a ball that jumped to another playfield is booked from a playfield that HOLDS
    a ball (count > 0) to the one whose count went negative - per-playfield counts follow the physical balls"""
    C = ContractSet("C04p", "playfield balancing books a jumped ball from where it physically was")
    C.strings = False
    C.cls("MpfController", fields={})
    C.cls("EventManager", fields={})
    C.ext("EventManager.post", model=lambda I, env, a, k: (emit(I, "post", event=a[0], kwargs=dict(k)), NONE)[1],
          trusted_reason="event posting (C01)")
    C.cls("PlayfieldI", fields=dict(balls=Int, available_balls=Int))

    def two(I, name):
        return I.new_list([I.fresh(ObjS("PlayfieldI"), "%s[%d]" % (name, i)) for i in range(2)], name)
    C.cls("PlayfieldsI", fields=dict(items_=Init(two)))
    C.ext("PlayfieldsI.values", model=lambda I, env, a, k: I.read_field(env["self"].ref, "items_"),
          trusted_reason="DeviceCollection.values(): the playfields (two here)")
    C.cls("BallController", file=BCTL, bases=["MpfController"], fields=dict(
        machine=ObjS("MachineController", events=ObjS("EventManager"), playfields=ObjS("PlayfieldsI"))))
    A, B = "self.machine.playfields.items_[0]", "self.machine.playfields.items_[1]"
    C.fn("BallController._balance_playfields",
         loops_by_text={"playfield_target in": LoopSpec(invariant=[], unroll=True),
                        "playfield_source in": LoopSpec(invariant=[], unroll=True)},
         requires=[("at most one ball is unaccounted per pass (the count handler calls this after every single capture)",
                    "%s.balls >= -1 and %s.balls >= -1" % (A, B))],
         ensures=[("BP1: a playfield whose count went negative gets the ball booked from the OTHER playfield whenever that "
                   "one physically holds a ball (count > 0) - whether or not that ball is 'available' - and never from "
                   "itself: the short playfield goes up by one, the other down by one",
                   "implies(old({a}.balls) < 0 and old({b}.balls) > 0, {a}.balls == old({a}.balls) + 1 and "
                   "{b}.balls == old({b}.balls) - 1 and {a}.available_balls == old({a}.available_balls) + 1 and "
                   "{b}.available_balls == old({b}.available_balls) - 1) and "
                   "implies(old({b}.balls) < 0 and old({a}.balls) > 0, {b}.balls == old({b}.balls) + 1 and "
                   "{a}.balls == old({a}.balls) - 1)".format(a=A, b=B)),
                  ("BP2: balancing never creates or loses a ball: the counts sum to what they did",
                   "{a}.balls + {b}.balls == old({a}.balls) + old({b}.balls) and {a}.available_balls + "
                   "{b}.available_balls == old({a}.available_balls) + old({b}.available_balls)".format(a=A, b=B)),
                  ("BP3: nothing moves while no count is negative",
                   "implies(old({a}.balls) >= 0 and old({b}.balls) >= 0, {a}.balls == old({a}.balls) and "
                   "{b}.balls == old({b}.balls))".format(a=A, b=B))],
         modifies=["%s.balls" % A, "%s.balls" % B, "%s.available_balls" % A, "%s.available_balls" % B], raises={},
         bounded="BOUNDED: two playfields")
    return C


def build_extra():
    # 'MPF never fires a ball towards a device that has no room': every physical attempt of the eject loop - the first
    # one AND every retry - comes after the target's readiness gate (C05's contract on _ejecting, clause E1)
    from . import C05
    c05 = C05.build()
    c05.pid = "C04b"
    c05.replay_pid = "C05"
    c05.only_verify = ["OutgoingBallsHandler._ejecting"]
    # balls in transit reserve their place at the target (C05's incoming-balls contracts, restricted)
    c05i = C05.incoming_set()
    c05i.pid = "C04i"
    c05i.replay_pid = "C05"
    c05i.only_verify = ["IncomingBallsHandler.get_num_incoming_balls", "IncomingBallsHandler.add_incoming_ball",
                        "IncomingBall.ball_arrived", "IncomingBall.did_not_arrive"]
    return [c05, counter_set(), loss_set(), c05i, ball_search_set(), balance_set()]
