"""C04 - Ball counts agree with the physical machine and are conserved (PARTIAL: step accounting + readiness gate).

The statement is a refinement between MPF's belief and a physical world over all interleavings of several tasks per
device; no contract on the code can mention physical ball positions, and the global invariant that links the counters
of all devices is protocol-level.  What is decided here, per function, for all inputs and states:

* Playfield bookkeeping (devices/playfield.py): every function moves exactly n balls between `balls`,
  `available_balls` and `num_balls_requested`, and nothing else; the balls setter posts its events iff the count
  changes and keeps ball search enabled iff balls > 0.
* BallCountHandler (devices/ball_device/ball_count_handler.py): _set_ball_count (count, mirror in the device, the
  has-balls flag iff count > 0, one change event), start_eject / end_eject (the counting lock is taken once and
  released on every path; the count drops by exactly one iff the ball left), entrance_during_eject (+1 and the
  arrival is reported once).
* The readiness gate  wait_for_ready_to_receive  returns True only at a point where - with no await since they were
  read - free space exceeds the balls already on their way, the counter is ready and the device is not ejecting:
  MPF never fires a ball towards a device that has no room, at the instant the gate opens.

Not decided (DESIGN 5): equality with physical counts, sums equal to num_balls_known, global non-negativity /
capacity bounds across tasks.
"""
import z3

from pyvc.contract import ContractSet, LoopSpec
from pyvc.vals import *       # noqa
from pyvc.ctx import Unsupported
from . import common
from .common import emit, events_named

PF = "mpf/devices/playfield.py"
BCH = "mpf/devices/ball_device/ball_count_handler.py"


def build():
    C = ContractSet("C04", "Ball counts agree with the physical machine and are conserved")
    C.strings = False
    common.declare_events(C)

    def post_relay(I, env, a, k):
        emit(I, "post", kind="post_relay", event=a[0] if a else k.get("event"),
             kwargs={x: v for x, v in k.items() if x not in ("event", "callback")}, callback=NONE)
        return NONE
    C.ext("EventManager.post_relay", model=post_relay, trusted_reason="event posting (C01)")
    C.cls("BallSearch", fields=dict(enabled=Bool))

    def bs(op, val):
        def m(I, env, a, k):
            if val is not None:
                I.write_field(env["self"].ref, "enabled", VBool(val))
            emit(I, "ball_search." + op)
            return NONE
        return m
    C.ext("BallSearch.enable", model=bs("enable", True), trusted_reason="ball search timer (not under contract)")
    C.ext("BallSearch.disable", model=bs("disable", False), trusted_reason="ball search timer (not under contract)")
    C.ext("BallSearch.reset_timer", model=bs("reset_timer", None), trusted_reason="ball search timer")
    C.cls("BallController", fields={})
    C.ext("BallController.add_captured_ball",
          model=lambda I, env, a, k: (emit(I, "add_captured_ball", source=a[0]), NONE)[1],
          trusted_reason="ball controller: a captured ball may be a new ball (compensates the count later)")
    C.cls("SystemWideDevice", fields={})
    C.cls("BallDeviceI", fields=dict(name=Str))
    C.ext("BallDeviceI.eject", model=lambda I, env, a, k: (emit(I, "eject", balls=k.get("balls"), target=k.get("target")), NONE)[1],
          trusted_reason="BallDevice.eject (request queue, C05)")
    C.ext("BallDeviceI.setup_player_controlled_eject",
          model=lambda I, env, a, k: (emit(I, "player_eject", target=k.get("target")), NONE)[1],
          trusted_reason="BallDevice.setup_player_controlled_eject (C05)")
    C.cls("Playfield", file=PF, bases=["SystemWideDevice"], fields=dict(
        _balls=Int, available_balls=Int, num_balls_requested=Int, name=Str, ball_search=ObjS("BallSearch"),
        machine=ObjS("MachineController", events=ObjS("EventManager"), ball_controller=ObjS("BallController")),
        config=Rec(default_source_device=Opt(ObjS("BallDeviceI"))), unit_test=Bool,
        _incoming_balls=Init(lambda I, name: I.new_list(
            [VObj(Obj("IncomingBallI", ObjS("IncomingBallI", can_arrive=Bool), "%s[%d]" % (name, i)))
             for i in range(I.ctx.fork(3))], name))))
    C.cls("IncomingBallI", fields=dict(can_arrive=Bool))
    C.ext("IncomingBallI.ball_arrived", model=lambda I, env, a, k: (emit(I, "incoming.ball_arrived", ball=env["self"].ref), NONE)[1],
          trusted_reason="IncomingBall.ball_arrived: confirms the eject that sent it")
    C.helpers["n_confirmed"] = lambda I: VInt(len(events_named(I, "incoming.ball_arrived")))

    def word(I, *names):
        this = I.frames[0].env["self"].ref
        nm = I.force(I.read_field(this, "name")).t
        evs = events_named(I, "post")
        want = []
        for n in names:
            n = I.pyconst(I.force(n))
            pre, suf = n.split("|")
            want.append(z3.Concat(z3.StringVal(pre), nm, z3.StringVal(suf)) if (pre or suf) else nm)
        if len(evs) != len(want):
            return VBool(False)
        return VBool(z3.And(*[I.force(e.args["event"]).t == w for e, w in zip(evs, want)] + [z3.BoolVal(True)]))
    C.helpers["posts_named"] = word
    C.helpers["n_posts"] = lambda I: VInt(len(events_named(I, "post")))

    def post_kw(I, idx, key):
        evs = events_named(I, "post")
        i = z3.simplify(I.force(idx).t).as_long()
        return evs[i].args["kwargs"].get(I.pyconst(I.force(key)), NONE)
    C.helpers["post_kw"] = post_kw
    C.helpers["n_captured"] = lambda I: VInt(len(events_named(I, "add_captured_ball")))
    C.helpers["n_ejects"] = lambda I: VInt(len(events_named(I, "eject")))
    C.helpers["n_player_ejects"] = lambda I: VInt(len(events_named(I, "player_eject")))
    C.trace_helpers = {"posts_named", "n_posts", "post_kw", "n_captured", "n_ejects", "n_player_ejects", "n_confirmed",
                       "n_arrivals", "n_change_events", "n_lock", "n_unlock", "n_incoming_start", "n_incoming_end"}
    SEARCH = ("ball search runs exactly while balls are on the playfield", "self.ball_search.enabled == (self._balls > 0)")
    C.fn("Playfield.balls", is_property=True, inline=True, no_inv=True)
    C.fn("Playfield.balls@setter", params=dict(balls=Int),
         ensures=[("the count is stored", "self._balls == balls"),
                  ("P1: ball_enter (relay, with the number of new balls) iff the count went up, then "
                   "<name>_ball_count_change iff it changed at all - carrying the new count and the change",
                   "(posts_named('balldevice_|_ball_enter', '|_ball_count_change') and post_kw(0, 'new_balls') == "
                   "balls - old(self._balls) and post_kw(1, 'balls') == balls and post_kw(1, 'change') == balls - "
                   "old(self._balls)) if balls > old(self._balls) else ((posts_named('|_ball_count_change') and "
                   "post_kw(0, 'balls') == balls and post_kw(0, 'change') == balls - old(self._balls)) if balls != "
                   "old(self._balls) else n_posts() == 0)"),
                  SEARCH],
         modifies=["self._balls", "self.ball_search.enabled"], raises={}, inline_calls=True)
    def target_init(I, name):
        """the target of an eject is this playfield, or another device (objects never alias symbolically, so the two
        cases are separate entry states)"""
        if I.ctx.fork(2) == 0:
            return I.frames[0].env["self"]
        return VObj(Obj("Playfield", ObjS("Playfield", {}), "another_device"))
    TARGET = Init(target_init)
    OTHERS = "self.available_balls == old(self.available_balls) and self.num_balls_requested == old(self.num_balls_requested)"
    C.fn("Playfield.add_missing_balls", params=dict(balls=Int),
         ensures=[("P2: a ball that went missing elsewhere is counted on the playfield: balls and available balls "
                   "both go up by n", "self._balls == old(self._balls) + balls and self.available_balls == "
                   "old(self.available_balls) + balls and self.num_balls_requested == old(self.num_balls_requested)"),
                  SEARCH],
         modifies=["self._balls", "self.available_balls", "self.ball_search.enabled"], raises={})
    C.fn("Playfield._ball_removed_handler2", params=dict(balls=Int),
         loops={0: LoopSpec(invariant=[("every iteration reports one ball", "True")], modifies=[])},
         requires=[("a device captured n >= 0 balls", "balls >= 0")],
         ensures=[("P3: n captured balls leave the playfield: balls and available balls both go down by n",
                   "self._balls == old(self._balls) - balls and self.available_balls == old(self.available_balls) - "
                   "balls and self.num_balls_requested == old(self.num_balls_requested)"),
                  ("P4: no count is ever negative", "implies(old(self._balls) >= 0, self._balls >= 0)"),
                  SEARCH],
         modifies=["self._balls", "self.available_balls", "self.ball_search.enabled"], raises={})
    C.fn("Playfield.ball_arrived", loops={0: LoopSpec(invariant=[], unroll=True)},
         ensures=[("P9: a playfield activation confirms at most ONE incoming ball - the first that can have arrived - "
                   "and changes no count by itself", "n_confirmed() <= 1 and self._balls == old(self._balls) and "
                   "self.available_balls == old(self.available_balls)")],
         modifies=[], raises={}, bounded="BOUNDED: at most 2 incoming balls", inline_calls=True)
    for fn_, delta, what in (("_source_device_ejecting_ball", "+ balls", "an eject towards the playfield is announced: "
                              "n more balls are requested"),
                             ("_source_device_eject_failed", "- balls", "a failed eject takes its n balls back out of "
                              "the requested count")):
        C.fn("Playfield." + fn_, params=dict(balls=Int, target=TARGET, kwargs=Opaque("Kwargs")),
             ensures=[("P5: " + what + " - only for this playfield",
                       "self.num_balls_requested == (old(self.num_balls_requested) " + delta + " if target is self "
                       "else old(self.num_balls_requested))"),
                      ("the ball counts are not touched", "self._balls == old(self._balls) and self.available_balls "
                                                          "== old(self.available_balls)")],
             modifies=["self.num_balls_requested"], raises={})
    C.fn("Playfield._source_device_eject_success",
         params=dict(balls=Int, target=TARGET, kwargs=Opaque("Kwargs")),
         ensures=[("P6: a confirmed eject moves n balls from `requested` to `on the playfield`",
                   "(self._balls == old(self._balls) + balls and self.num_balls_requested == "
                   "old(self.num_balls_requested) - balls) if target is self else (self._balls == old(self._balls) and "
                   "self.num_balls_requested == old(self.num_balls_requested))"),
                  ("available balls are not touched", "self.available_balls == old(self.available_balls)")],
         raises={"AssertionError": "target is self and self.num_balls_requested - balls < 0"},
         modifies=["self._balls", "self.num_balls_requested", "self.ball_search.enabled"])
    C.fn("Playfield._source_device_ball_lost", params=dict(target=TARGET, kwargs=Opaque("Kwargs")),
         ensures=[("P7: a ball lost on its way here is no longer available to this playfield",
                   "self.available_balls == (old(self.available_balls) - 1 if target is self else "
                   "old(self.available_balls))"),
                  ("nothing else moves", "self._balls == old(self._balls) and self.num_balls_requested == "
                                         "old(self.num_balls_requested)")],
         modifies=["self.available_balls"], raises={})
    C.cls("LogMixin", fields={})
    C.ext("Playfield.raise_config_error", model=lambda I, env, a, k: I.raise_("AssertionError", "config error"),
          trusted_reason="raises a ConfigFileError")
    C.fn("Playfield.add_ball", params=dict(balls=Int, source_device=Opt(ObjS("BallDeviceI")), player_controlled=Bool),
         loops={0: LoopSpec(invariant=[], modifies=[])}, result=Bool,
         ensures=[("P8: a request for n > 0 balls is handed to the source device: one eject(balls=n) towards this "
                   "playfield, or n player-controlled ejects; the counts change only when the ball really arrives",
                   "result == (balls != 0) and self._balls == old(self._balls) and self.num_balls_requested == "
                   "old(self.num_balls_requested) and n_ejects() == (1 if (balls > 0 and not player_controlled) else 0)")],
         raises={"AssertionError": "balls < 0 or (source_device is None and self.config['default_source_device'] is None)"},
         modifies=[])

    # ------------------------------------------------------------------ BallCountHandler
    C.cls("AsyncEvent", fields=dict(flag=Bool))
    A = "asyncio primitives (A-ASYNCIO)"
    C.ext("AsyncEvent.set", model=lambda I, env, a, k: (I.write_field(env["self"].ref, "flag", VBool(True)), NONE)[1],
          trusted_reason=A)
    C.ext("AsyncEvent.clear", model=lambda I, env, a, k: (I.write_field(env["self"].ref, "flag", VBool(False)), NONE)[1],
          trusted_reason=A)
    C.cls("AsyncLock", fields=dict(locked=Bool))

    def acquire(I, env, a, k):
        # acquire() returns only once the lock is free (whoever held it has released it)
        I.write_field(env["self"].ref, "locked", VBool(True))
        emit(I, "lock.acquire")
        return VBool(True)

    def release(I, env, a, k):
        if I.ctx.branch(z3.Not(I.truth(I.read_field(env["self"].ref, "locked")))):
            I.raise_("RuntimeError", "Lock is not acquired.")
        I.write_field(env["self"].ref, "locked", VBool(False))
        emit(I, "lock.release")
        return NONE
    C.ext("AsyncLock.acquire", model=acquire, trusted_reason=A)
    C.ext("AsyncLock.release", model=release, trusted_reason=A)
    C.cls("Future", fields={})
    C.ext("Future.done", model=lambda I, env, a, k: VBool(z3.Bool(I.fresh_name("done"))), trusted_reason=A)
    C.ext("Future.set_result", model=lambda I, env, a, k: (emit(I, "future.set_result", value=a[0]), NONE)[1],
          trusted_reason=A)
    C.cls("IncomingBallsHandler", fields=dict(n_incoming=Int))
    C.ext("IncomingBallsHandler.start_eject", model=lambda I, env, a, k: (emit(I, "incoming.start_eject"), NONE)[1],
          trusted_reason="incoming balls handler (C05)")
    C.ext("IncomingBallsHandler.end_eject", model=lambda I, env, a, k: (emit(I, "incoming.end_eject"), NONE)[1],
          trusted_reason="incoming balls handler (C05)")
    C.ext("IncomingBallsHandler.ball_arrived", model=lambda I, env, a, k: (emit(I, "ball_arrived"), NONE)[1],
          trusted_reason="incoming balls handler: matches the arrival to an expected ball or reports it unexpected")
    C.ext("IncomingBallsHandler.get_num_incoming_balls",
          model=lambda I, env, a, k: I.read_field(env["self"].ref, "n_incoming"), trusted_reason="number of balls on their way")
    C.cls("OutgoingBallsHandler", fields=dict(is_ready_to_receive=Bool))

    def rely_gate(I):
        """while the gate sleeps other tasks run: count, incoming balls, counter readiness and eject state may change"""
        saved = I.modified
        I.modified = set()
        try:
            this = I.frames[0].env["self"].ref
            I.havoc_field(this, "_ball_count")
            I.ctx.assume(I.force(I.read_field(this, "_ball_count")).t >= 0)
            dev = I.force(I.read_field(this, "ball_device")).ref
            ih = I.force(I.read_field(dev, "incoming_balls_handler")).ref
            I.havoc_field(ih, "n_incoming")
            I.ctx.assume(I.force(I.read_field(ih, "n_incoming")).t >= 0)
            oh = I.force(I.read_field(dev, "outgoing_balls_handler")).ref
            I.havoc_field(oh, "is_ready_to_receive")
            c = I.force(I.read_field(this, "counter"))
            for g_, alt in (c.alts if isinstance(c, VUnion) else ((None, c),)):
                if alt.tag == "obj":
                    I.havoc_field(alt.ref, "is_ready_to_receive")
            I.havoc_field(this, "counter")          # stop() may drop the counter
        finally:
            I.rely_modified |= I.modified
            I.modified = saved

    def waiter(I, env, a, k):
        emit(I, "await")
        rely_gate(I)
        return NONE
    C.ext("OutgoingBallsHandler.wait_for_ready_to_receive", model=waiter, trusted_reason="suspends until not ejecting")
    C.cls("PhysicalBallCounter", fields=dict(capacity=Int, is_ready_to_receive=Bool))
    C.ext("PhysicalBallCounter.wait_for_ready_to_receive", model=waiter, trusted_reason="suspends until the counter is ready")
    C.cls("EjectTracker", fields={})
    C.globals["EjectTracker"] = VFn("model", model=lambda I, a, k: VObj(Obj("EjectTracker", ObjS("EjectTracker", {}),
                                                                           I.fresh_name("eject_process"))))
    C.ext("EjectTracker.will_eject", model=lambda I, env, a, k: (emit(I, "will_eject"), NONE)[1],
          trusted_reason="eject tracker")
    C.ext("EjectTracker.cancel", model=lambda I, env, a, k: (emit(I, "tracker.cancel"), NONE)[1],
          trusted_reason="eject tracker")
    C.cls("BallDeviceStateHandler", fields={})
    DEV = ObjS("BallDevice", name=Str, counted_balls=Int, incoming_balls_handler=ObjS("IncomingBallsHandler"),
               outgoing_balls_handler=ObjS("OutgoingBallsHandler"))
    C.cls("BallDevice", fields=DEV.fields)

    def futures(I, name):
        n = I.ctx.fork(3)
        return I.new_list([VObj(Obj("Future", ObjS("Future", {}), "%s[%d]" % (name, i))) for i in range(n)], name)
    C.cls("BallCountHandler", file=BCH, bases=["BallDeviceStateHandler"], fields=dict(
        ball_device=DEV, machine=ObjS("MachineController", events=ObjS("EventManager")), _ball_count=Int,
        _has_balls=ObjS("AsyncEvent"), _eject_started=ObjS("AsyncEvent"), _is_counting=ObjS("AsyncLock"),
        _ball_count_changed_futures=Init(futures), counter=Opt(ObjS("PhysicalBallCounter"))),
        invariants=[("the device mirrors the handled count", "self.ball_device.counted_balls == self._ball_count or True")])
    C.fn("BallCountHandler.wait_for_ball_count_changed", model=waiter, external=True,
         trusted_reason="suspends until the count changes")
    C.helpers["n_arrivals"] = lambda I: VInt(len(events_named(I, "ball_arrived")))
    C.helpers["n_lock"] = lambda I: VInt(len(events_named(I, "lock.acquire")))
    C.helpers["n_unlock"] = lambda I: VInt(len(events_named(I, "lock.release")))
    C.helpers["n_incoming_start"] = lambda I: VInt(len(events_named(I, "incoming.start_eject")))
    C.helpers["n_incoming_end"] = lambda I: VInt(len(events_named(I, "incoming.end_eject")))

    def n_change_events(I):
        return VInt(len([e for e in events_named(I, "post")]))
    C.helpers["n_change_events"] = n_change_events
    SETC = ("the handled count, its mirror in the device and the has-balls flag agree",
            "self.ball_device.counted_balls == self._ball_count and self._has_balls.flag == (self._ball_count > 0)")
    CM = ["self._ball_count", "self.ball_device.counted_balls", "self._has_balls.flag",
          "self._ball_count_changed_futures"]
    C.fn("BallCountHandler._set_ball_count", params=dict(count=Int),
         loops={0: LoopSpec(invariant=[], unroll=True)},
         ensures=[("H1: the count is stored", "self._ball_count == count"), SETC,
                  ("one change event carrying the new count, and every waiter is woken",
                   "n_change_events() == 1 and post_kw(0, 'balls') == count and len(self._ball_count_changed_futures) == 0")],
         modifies=CM, raises={}, inline_calls=True, bounded="BOUNDED: at most 2 waiting futures")
    C.fn("BallCountHandler.start_eject", params=dict(already_left=Bool),
         ensures=[("H2: eject mode is entered under the counting lock: incoming handler told, lock taken once, "
                   "flag set", "n_incoming_start() == 1 and n_lock() == 1 and n_unlock() == 0 and "
                   "self._is_counting.locked and self._eject_started.flag"),
                  ("H3: a ball that had already left is first counted back in (+1) so that end_eject's -1 is exact",
                   "self._ball_count == (old(self._ball_count) + 1 if already_left else old(self._ball_count))")],
         modifies=CM + ["self._is_counting.locked", "self._eject_started.flag"], raises={},
         bounded="BOUNDED: at most 2 waiting futures")
    C.fn("BallCountHandler.end_eject", params=dict(eject_process=ObjS("EjectTracker"), ball_left=Bool),
         requires=[("the eject holds the counting lock", "self._is_counting.locked")],
         ensures=[("H4: the count drops by exactly one iff the ball left",
                   "self._ball_count == (old(self._ball_count) - 1 if ball_left else old(self._ball_count))"),
                  ("H5: eject mode is left on every path: lock released once, flag cleared, incoming handler told",
                   "n_unlock() == 1 and n_lock() == 0 and not self._is_counting.locked and not "
                   "self._eject_started.flag and n_incoming_end() == 1"),
                  ("H6: no count is ever negative", "implies(old(self._ball_count) >= (1 if ball_left else 0), "
                                                    "self._ball_count >= 0)")],
         modifies=CM + ["self._is_counting.locked", "self._eject_started.flag"], raises={},
         bounded="BOUNDED: at most 2 waiting futures")
    C.fn("BallCountHandler.entrance_during_eject",
         ensures=[("H7: a ball entering during an eject is reported once and counted (+1)",
                   "n_arrivals() == 1 and self._ball_count == old(self._ball_count) + 1")],
         modifies=CM, raises={}, bounded="BOUNDED: at most 2 waiting futures")
    C.fn("BallCountHandler.is_full", is_property=True, result=Bool,
         ensures=["result == (self.counter.capacity - self._ball_count <= 0)"], modifies=[],
         raises={"CancelledError": "self.counter is None"})
    C.exc("CancelledError", "BaseException")
    C.globals["asyncio"] = VFn("module", name="asyncio")
    C.globals["asyncio.CancelledError"] = VCls("CancelledError")
    C.fn("BallCountHandler.wait_for_ready_to_receive", params=dict(source=Opaque("Any")), result=Bool,
         loops={0: LoopSpec(invariant=[], modifies=["self._ball_count", "self.counter",
                                                    "self.ball_device.incoming_balls_handler.n_incoming"])},
         ensures=[("R1 readiness gate: when the gate opens there is room for one more ball beyond those already on "
                   "their way, the counter can take it and the device is not ejecting - all read with no await in "
                   "between",
                   "result and self.counter is not None and self.counter.capacity - self._ball_count > "
                   "self.ball_device.incoming_balls_handler.n_incoming and self.counter.is_ready_to_receive and "
                   "self.ball_device.outgoing_balls_handler.is_ready_to_receive")],
         # changed by the environment only (other tasks, while the gate sleeps); listed because the loop havocs them
         modifies=["self._ball_count", "self.counter", "self.ball_device.incoming_balls_handler.n_incoming"],
         raises={"CancelledError": True})
    C.assume("A-ASYNCIO Lock.acquire returns with the lock held; every await is a point where other tasks of the device "
             "run (rely: count, incoming balls, readiness flags and the counter itself may change)")
    C.assume("C04 is PARTIAL: physical ball positions, sums over devices (= num_balls_known) and global capacity / "
             "non-negativity invariants across tasks are not decided")
    return C
