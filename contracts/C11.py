"""C11 - Player state is isolated per player and restored on their next turn.

Per-call contracts on the real functions that can reach a player's variables:

* core/player.py: the Player class.  The variable store ``vars`` is a real dict; every function is proved on the slice
  of the store at the one key it is called with (plus the fixed keys 'index' / 'number'); a structural obligation
  checks each run that these functions subscript ``self.vars`` with that key only, so all other variables of this
  player - and, because ``__init__`` allocates a fresh dict, all variables of every other player - are outside the
  frame.  ``__setattr__``: value stored, exactly one ``player_<name>`` event with the correct value / prev_value /
  change / player_num iff the value is new or changed, is an int/float/str and events are enabled.
* core/enable_disable_mixin.py: persisted enable flags live in the player that was bound by
  ``device_loaded_in_mode`` and nowhere else; binding restores the stored flag unchanged; unbinding severs the link.
* devices/logic_blocks.py: the persisted state object IS the object stored in the bound player's variable
  (created with start values iff absent), and the link is dropped on removal.
* core/mode_controller.py: game modes point at the player whose turn starts, and at nobody between turns (bounded: 3 modes).

The cross-turn clause of the property follows from these frames by the ownership argument of DESIGN 4.C11 (stated).
"""
import ast as pyast

import z3

from pyvc.contract import ContractSet, LoopSpec
from pyvc.vals import *       # noqa
from pyvc import extract
from pyvc.ctx import Unsupported
from pyvc.interp import MISSING
from . import common
from .common import emit, events_named

PL = "mpf/core/player.py"
EDM = "mpf/core/enable_disable_mixin.py"
LB = "mpf/devices/logic_blocks.py"
MC = "mpf/core/mode_controller.py"
INTERNAL = ("log", "machine", "vars", "_events_enabled")


def _dget(I, d, key):
    return I.container(I.force(d).ref).get(key)


def declare_player(C, value_shape, key_of):
    """the Player class with its store sliced at the key the function under proof uses (key_of(I) -> VStr)"""
    common.declare_events(C)
    C.cls("Logger", fields={})
    C.ext("Logger.debug", model=common.noop, trusted_reason="logging")
    C.cls("InstanceDict", fields={})

    def idict_contains(I, env, a, k):
        n = I.force(a[0])
        return VBool(z3.Or(*[n.t == z3.StringVal(c) for c in INTERNAL]))

    def idict_set(I, env, a, k):
        n = I.pyconst(I.force(a[0]))
        if n is MISSING:
            raise Unsupported("self.__dict__[<symbolic name>] store")
        I.write_field(I.frames[-1].env["self"].ref, n, a[1])
        return NONE
    R = "the instance __dict__ holds exactly the four internal attributes set in __init__ (log, machine, vars, " \
        "_events_enabled); player variables never enter it"
    C.ext("InstanceDict.__contains__", model=idict_contains, trusted_reason=R)
    C.ext("InstanceDict.__setitem__", model=idict_set, trusted_reason=R)
    C.globals["logging"] = VFn("module", name="logging")
    C.globals["logging.getLogger"] = VFn("model", model=lambda I, a, k: VObj(Obj("Logger", ObjS("Logger", {}), "log")))

    def vars_slice(I, name):
        """{'index': i, 'number': i + 1} plus nothing or one entry under the key in use"""
        idx = I.fresh(Int, name + "['index']")
        num = I.fresh(Int, name + "['number']")
        ents = [("index", idx), ("number", num)]
        key = key_of(I)
        if key is not None and I.ctx.fork(2) == 1:
            I.ctx.assume(z3.And(key.t != z3.StringVal("index"), key.t != z3.StringVal("number")))
            ents.append((key, I.fresh(value_shape, name + "[name]")))
        return I.new_dict(ents, name)
    MACHINE = ObjS("MachineController", config=Rec(), events=ObjS("EventManager"), monitors=Rec(player=Seq(Fn)))
    C.cls("Player", file=PL, fields={"machine": MACHINE, "vars": Init(vars_slice), "_events_enabled": Bool,
                                     "log": ObjS("Logger"), "__dict__": ObjS("InstanceDict")})
    C.globals["Player"] = VCls("Player")
    C.globals["Player.monitor_enabled"] = VBool(z3.Bool("Player.monitor_enabled"))
    return MACHINE


def player_part(C):
    def key_of(I):
        env = I.frames[0].env
        for k in ("name", "var_name"):
            if k in env:
                return I.force(env[k])
        return None
    declare_player(C, Scalar, key_of)

    def posted_var(I, name, value, prev, number, extra):
        """exactly one event player_<name>(value, prev_value, change, player_num, **extra) with
        change = value - prev for numbers and (prev != value) otherwise"""
        ev = events_named(I, "post")
        if len(ev) != 1:
            return VBool(False)
        e = ev[0]
        kw = dict(e.args["kwargs"])
        if extra is None or I.force(extra).tag == "none":
            ex = {}
        elif I.force(extra).tag == "opaque":
            ex = {"**": I.force(extra)}          # the caller's (arbitrary) extra event arguments
        else:
            ex = dict(common._kwargs_of(I, {"kwargs": extra}))
        star = kw.pop("**", None)
        star_ex = ex.get("**")
        if (star is None) != (star_ex is None):
            return VBool(False)         # the caller's extra event arguments were dropped (or invented)
        if set(kw) - set(ex) != {"value", "prev_value", "change", "player_num"}:
            return VBool(False)
        conj = [I.eq(e.args["event"], VStr(z3.Concat(z3.StringVal("player_"), I.force(name).t))),
                I.eq(kw["value"], value), I.eq(kw["prev_value"], prev), I.eq(kw["player_num"], number)]
        # change
        cases = []
        val_alts = value.alts if isinstance(value, VUnion) else ((z3.BoolVal(True), value),)
        prev_alts = prev.alts if isinstance(prev, VUnion) else ((z3.BoolVal(True), prev),)
        for g1, v in val_alts:
            for g2, p in prev_alts:
                num = v.tag in ("int", "real", "bool") and p.tag in ("int", "real", "bool")
                if num:
                    want = I.binop_vals("-", v, p) if hasattr(I, "binop_vals") else None
                    if want is None:
                        kv, tv = I.num(v)
                        kp, tp = I.num(p)
                        if kv == "real" or kp == "real":
                            tv = z3.ToReal(tv) if kv != "real" else tv
                            tp = z3.ToReal(tp) if kp != "real" else tp
                            want = VReal(tv - tp)
                        else:
                            want = VInt(tv - tp)
                else:
                    want = VBool(z3.Not(I.eq(v, p)))
                cases.append(z3.Implies(z3.And(g1, g2), I.eq(kw["change"], want)))
        conj.extend(cases)
        if star is not None:
            conj.append(I.eq(star, star_ex))
        for k_, v_ in ex.items():
            if k_ == "**":
                continue
            if k_ not in kw:
                return VBool(False)
            conj.append(I.eq(kw[k_], v_))
        return VBool(z3.And(*conj))
    C.helpers["posted_var"] = posted_var
    C.helpers["n_posts"] = lambda I: VInt(len(events_named(I, "post")))

    def is_simple(I, v):
        alts = v.alts if isinstance(v, VUnion) else ((z3.BoolVal(True), v),)
        return VBool(z3.Or([g for g, a in alts if a.tag in ("int", "real", "bool") or (a.tag == "str")] +
                           [z3.BoolVal(False)]))
    C.helpers["is_simple"] = is_simple
    C.helpers["is_number"] = lambda I, v: VBool(z3.Or([g for g, a in (v.alts if isinstance(v, VUnion) else
                                                                     ((z3.BoolVal(True), v),))
                                                       if a.tag in ("int", "real", "bool")] + [z3.BoolVal(False)]))

    def is_new_container(I, v):
        v = I.force(v)
        return VBool(v.tag == "dict" and (v.ref, "$") not in I.old_heap.data)
    C.helpers["is_new_container"] = is_new_container
    C.trace_helpers = {"posted_var", "n_posts"}

    NOTINT = ("player variable names are not the four internal attribute names",
              "name != 'log' and name != 'machine' and name != 'vars' and name != '_events_enabled'")
    PREV = "(old(self.vars[name]) if old(name in self.vars) else 0)"
    ANNOUNCE = "((not old(name in self.vars) or old(self.vars[name]) != value) and is_simple(value) and " \
               "self._events_enabled)"
    C.fn("Player._send_variable_event",
         params=dict(name=Str, value=Scalar, prev_value=Scalar, change=Scalar, player_num=Int, kwargs=Opaque("Kwargs")),
         loops={0: LoopSpec(invariant=[], modifies=[])},
         ensures=[("one event player_<name> carrying value, prev_value, change and player_num",
                   "n_posts() == 1")],
         modifies=[], raises={}, inline_calls=True, emits=lambda I, env, res: None)
    C.fn("Player.__setattr__", params=dict(name=Str, value=Scalar, kwargs=Opaque("Kwargs")), requires=[NOTINT],
         ensures=[
             ("the value is stored under the name", "name in self.vars and self.vars[name] == value"),
             ("V1: a new or changed int/float/str value posts exactly one player_<name> event with the new value, "
              "the previous value (0 for a new variable), the change and this player's number",
              "implies(" + ANNOUNCE + ", posted_var(name, value, " + PREV + ", self.vars['number'], kwargs))"),
             ("V2: nothing is posted otherwise", "implies(not " + ANNOUNCE + ", n_posts() == 0)"),
             ("the player's identity is not touched by ordinary variables",
              "implies(name != 'number', self.vars['number'] == old(self.vars['number'])) and "
              "implies(name != 'index', self.vars['index'] == old(self.vars['index']))"),
             ("the event switch is not touched", "self._events_enabled == old(self._events_enabled)"),
         ],
         modifies=["self.vars.**"], raises={}, inline_calls=True, emits=lambda I, env, res: None)
    C.fn("Player.__getattr__", params=dict(name=Str),
         ensures=[("the stored value, 0 for an unknown variable; nothing is created",
                   "result == (self.vars[name] if name in self.vars else 0)")],
         result=Scalar, modifies=[], raises={}, inline_calls=True)
    C.fn("Player.__getitem__", params=dict(name=Str),
         ensures=["result == (self.vars[name] if name in self.vars else 0)"],
         result=Scalar, modifies=[], raises={}, inline_calls=True)
    C.fn("Player.__setitem__", params=dict(name=Str, value=Scalar), requires=[NOTINT],
         ensures=[("the value is stored under the name", "name in self.vars and self.vars[name] == value"),
                  ("announced like an attribute write",
                   "implies(" + ANNOUNCE + ", posted_var(name, value, " + PREV + ", self.vars['number'], None))"),
                  ("nothing is posted otherwise", "implies(not " + ANNOUNCE + ", n_posts() == 0)")],
         modifies=["self.vars.**"], raises={}, inline_calls=True, emits=lambda I, env, res: None)
    C.fn("Player.set_with_kwargs", params=dict(name=Str, value=Scalar, kwargs=Opaque("Kwargs")), requires=[NOTINT],
         ensures=[("the value is stored under the name", "name in self.vars and self.vars[name] == value"),
                  ("announced with the extra event arguments",
                   "implies(" + ANNOUNCE + ", posted_var(name, value, " + PREV + ", self.vars['number'], kwargs))"),
                  ("nothing is posted otherwise", "implies(not " + ANNOUNCE + ", n_posts() == 0)")],
         modifies=["self.vars.**"], raises={})
    C.fn("Player.add_with_kwargs", params=dict(name=Str, value=Num, kwargs=Opaque("Kwargs")), requires=[
        NOTINT, ("the variable is a number (or new)", "implies(name in self.vars, is_number(self.vars[name]))")],
         ensures=[("the variable grows by exactly the value (from 0 when new)",
                   "self.vars[name] == " + PREV + " + value"),
                  ("announced with the extra event arguments",
                   "implies((not old(name in self.vars) or value != 0) and self._events_enabled, "
                   "posted_var(name, self.vars[name], " + PREV + ", self.vars['number'], kwargs))")],
         modifies=["self.vars.**"], raises={})
    C.fn("Player.is_player_var", params=dict(var_name=Str),
         ensures=["result == (var_name in self.vars)"], result=Bool, modifies=[], raises={}, inline_calls=True)
    C.fn("Player.send_all_variable_events", inline=True)
    C.fn("Player.enable_events", params=dict(enable=Bool, send_all_variables=Bool),
         requires=[("called without a variable in focus", "True")],
         ensures=[("the switch is set", "self._events_enabled == enable"),
                  ("no variable changes", "self.vars['number'] == old(self.vars['number'])")],
         modifies=["self._events_enabled"], raises={},
         bounded="BOUNDED: send_all_variable_events iterates a store of the 2 fixed variables")

    # ---- construction
    C.globals["copy"] = VFn("module", name="copy")
    C.fn("Player._load_initial_player_vars", inline=True)
    C.fn("Player.__init__", params=dict(machine=C.classes["Player"].fields["machine"], index=Int),
         requires=[("no player_vars section (initial values from the config are the bounded check below)",
                    "'player_vars' not in machine.config")],
         ensures=[
             ("I1: the store is a NEW dict: no two players share variables", "is_new_container(self.vars)"),
             ("identity", "self.vars['index'] == index and self.vars['number'] == index + 1"),
             ("every player starts from score 0", "self.vars['score'] == 0"),
             ("exactly these three variables", "len(self.vars) == 3"),
             ("events start disabled: construction posts nothing", "not self._events_enabled and n_posts() == 0"),
             ("bound to the machine", "self.machine is machine"),
         ],
         modifies=["self.vars", "self.machine", "self.log", "self._events_enabled", "self.vars.**"], raises={},
         no_inv=True)

    def structural(C_):
        rows = []
        for q, allowed in (("__setattr__", {"name", "'number'"}), ("__getattr__", {"name"}),
                           ("is_player_var", set())):
            node, _ = extract.find_def(PL, "Player." + q)
            bad = [pyast.unparse(n) for n in pyast.walk(node)
                   if isinstance(n, pyast.Subscript) and pyast.unparse(n.value) == "self.vars" and
                   pyast.unparse(n.slice) not in allowed]
            rows.append(("Player.%s touches the store only at %s" % (q, sorted(allowed) or "no key"), not bad,
                         "ok" if not bad else "other keys: %s" % bad[:3]))
        # no other function of the class writes the store
        src, tree = extract.load_module(PL)
        writers = []
        for n in pyast.walk(tree):
            if isinstance(n, pyast.FunctionDef):
                for m in pyast.walk(n):
                    tgt = []
                    if isinstance(m, pyast.Assign):
                        tgt = m.targets
                    elif isinstance(m, (pyast.AugAssign, pyast.AnnAssign)):
                        tgt = [m.target]
                    elif isinstance(m, pyast.Delete):
                        tgt = m.targets
                    for t in tgt:
                        if isinstance(t, pyast.Subscript) and pyast.unparse(t.value) == "self.vars":
                            writers.append(n.name)
        rows.append(("only __init__ and __setattr__ write self.vars[...] in core/player.py",
                     set(writers) <= {"__init__", "__setattr__"}, "writers: %s" % sorted(set(writers))))
        return rows
    C.finite_checks.append(structural)
    C.assume("player-variable values range over None, bool, int, float and str in the Player proofs (device state "
             "objects are covered by the binding contracts); monitors only observe")


def build():
    C = ContractSet("C11", "Player state is isolated per player and restored on their next turn")
    C.strings = True
    player_part(C)
    return C


NOT_RESERVED = lambda v: ("the persisted variable's name is an ordinary player-variable name",
                          " and ".join("%s != '%s'" % (v, c) for c in INTERNAL + ("index", "number")))


def mixin_part(C):
    """EnableDisableMixin: where the enable flag of a mode device lives"""
    def key_of(I):
        dev = I.frames[0].env.get("self")
        if dev is None or dev.tag != "obj" or dev.ref.cls == "Player":
            return None
        return I.force(I.read_field(dev.ref, "_player_var_name_for_enable"))
    declare_player(C, Union(Bool, NoneT), key_of)
    C.fns["Player.__setattr__"] = None
    del C.fns["Player.__setattr__"]
    # the Player functions the devices call: proved in the main set, executed here at the call sites
    NOTINT = ("player variable names are not the four internal attribute names",
              "name != 'log' and name != 'machine' and name != 'vars' and name != '_events_enabled'")
    C.fn("Player._send_variable_event", inline=True, loops={0: LoopSpec(invariant=[], modifies=[])})
    C.fn("Player.__setattr__", params=dict(name=Str, value=Scalar), requires=[NOTINT], inline=True)
    C.fn("Player.__getattr__", inline=True)
    C.fn("Player.__getitem__", inline=True)
    C.fn("Player.__setitem__", params=dict(name=Str, value=Scalar), requires=[NOTINT], inline=True)
    C.fn("Player.is_player_var", inline=True)
    C.cls("Device", fields={})
    C.cls("ModeDevice", fields={}, bases=["Device"])
    C.ext("ModeDevice.device_loaded_in_mode", model=common.noop, trusted_reason="base class hook (empty)")
    C.cls("Mode", fields={})

    def cfg(I, name):
        """device config: each of the keys the mixin looks at may be present or absent"""
        ents = []
        m = I.ctx.fork(8)
        if m & 1:
            ents.append(("persist_enable", I.fresh(Bool, name + "['persist_enable']")))
        if m & 2:
            ents.append(("start_enabled", I.fresh(Opt(Bool), name + "['start_enabled']")))
        if m & 4:
            ents.append(("enable_events", I.fresh(Seq(Str), name + "['enable_events']")))
        return I.new_dict(ents, name)
    C.cls("EnableDisableMixin", file=EDM, bases=["ModeDevice"], fields=dict(
        config=Init(cfg), _enabled=Opt(Bool), player=Opt(ObjS("Player")), _player_var_name_for_enable=Str))

    def hook(nm):
        def m(I, env, a, k):
            emit(I, "hook", name=nm)
            return NONE
        return m
    H = "device-specific enable/disable hook (empty in the mixin; subclasses switch hardware / handlers, they do " \
        "not write player variables)"
    C.ext("EnableDisableMixin._enable", model=hook("_enable"), trusted_reason=H)
    C.ext("EnableDisableMixin._disable", model=hook("_disable"), trusted_reason=H)
    C.ext("EnableDisableMixin.notify_virtual_change",
          model=lambda I, env, a, k: (emit(I, "notify", attr=a[0], old=a[1], value=a[2]), NONE)[1],
          trusted_reason="DeviceMonitor.notify_virtual_change: wakes every template subscribed to the attribute (C16)")

    def notified(I, old, new):
        evs = [e for e in events_named(I, "notify") if I.pyconst(I.force(e.args["attr"])) == "enabled"]
        if len(evs) != 1:
            return VBool(False)
        return VBool(z3.And(I.eq(evs[0].args["old"], old), I.eq(evs[0].args["value"], new)))
    C.helpers["notified_enabled"] = notified
    C.helpers["n_notified"] = lambda I: VInt(len(events_named(I, "notify")))
    C.helpers["n_hook"] = lambda I, nm: VInt(len([e for e in events_named(I, "hook")
                                                  if e.args["name"] == I.pyconst(I.force(nm))]))
    C.helpers["n_posts"] = lambda I: VInt(len(events_named(I, "post")))
    C.trace_helpers = {"n_hook", "n_posts", "notified_enabled", "n_notified"}
    PERSIST = "('persist_enable' in self.config and self.config['persist_enable'])"
    VAR = "self._player_var_name_for_enable"
    STORED = "self.player.vars[" + VAR + "]"
    C.fn("EnableDisableMixin.persist_enabled", is_property=True, inline=True, no_inv=True)
    C.fn("EnableDisableMixin.enabled", is_property=True, result=Union(Bool, NoneT, Int),
         ensures=[("E1: a persisted flag is read from the bound player only (False when no player is bound, 0 when "
                   "the player has no such variable); otherwise from the device",
                   "result == ((" + STORED + " if " + VAR + " in self.player.vars else 0) if self.player else False) "
                   "if " + PERSIST + " else result == self._enabled")],
         modifies=[], raises={}, inline_calls=True)
    C.fn("EnableDisableMixin.enabled@setter", params=dict(value=Bool),
         requires=[NOT_RESERVED(VAR), ("a persisted flag can only be written while a player is bound",
                                       "implies(" + PERSIST + ", self.player is not None)")],
         ensures=[("E2: a persisted flag is written into the bound player's variable and nowhere else",
                   "(" + STORED + " == value and self._enabled == old(self._enabled)) if " + PERSIST +
                   " else self._enabled == value")],
         modifies=["self._enabled", "self.player.vars.**"], raises={}, inline_calls=True,
         emits=lambda I, env, res: None)
    C.fn("EnableDisableMixin._load_enable_based_on_config_default", inline=True)
    DEFAULT = "(True if ('start_enabled' in self.config and self.config['start_enabled'] is True) else " \
              "(False if ('start_enabled' in self.config and self.config['start_enabled'] is False) else " \
              "((len(self.config['enable_events']) == 0) if 'enable_events' in self.config else False)))"
    C.fn("EnableDisableMixin.device_loaded_in_mode", params=dict(mode=ObjS("Mode"), player=ObjS("Player")),
         requires=[NOT_RESERVED(VAR)],
         ensures=[
             ("B1: the device is bound to the player whose turn starts", "self.player is player"),
             ("B2 restore: a flag the player already has is left exactly as stored",
              "implies(" + PERSIST + " and old(" + VAR + " in player.vars), player.vars[" + VAR + "] == old(player.vars[" + VAR + "]))"),
             ("B3: the device-specific enable hook runs iff the restored flag is set",
              "implies(" + PERSIST + " and old(" + VAR + " in player.vars), n_hook('_enable') == "
              "(1 if old(player.vars[" + VAR + "]) else 0))"),
             ("B4 first turn: a player without the flag gets the configured default",
              "implies(" + PERSIST + " and not old(" + VAR + " in player.vars), player.vars[" + VAR + "] == " + DEFAULT + ")"),
             ("B5: without persistence the flag lives in the device",
              "implies(not " + PERSIST + ", self._enabled == " + DEFAULT + ")"),
             ("B6: without persistence the player is not written",
              "implies(not " + PERSIST + ", (" + VAR + " in player.vars) == old(" + VAR + " in player.vars))"),
         ],
         modifies=["self.player", "self._enabled", "player.vars.**"], raises={}, emits=lambda I, env, res: None)
    C.fn("EnableDisableMixin.device_removed_from_mode", params=dict(mode=ObjS("Mode")),
         ensures=[("U1: the link to the player is dropped, so later writes cannot reach any player",
                   "self.player is None and self._enabled is None"),
                  ("U2: the disable hook runs once", "n_hook('_disable') == 1")],
         modifies=["self.player", "self._enabled"], raises={})
    C.fn("EnableDisableMixin.enable",
         requires=[NOT_RESERVED(VAR), ("a persisted flag can only be written while a player is bound",
                                       "implies(" + PERSIST + ", self.player is not None)")],
         ensures=[("the flag is set where it lives",
                   "(" + STORED + " is True) if " + PERSIST + " else (self._enabled is True)"),
                  ("the enable hook runs iff the flag was not already True",
                   "n_hook('_enable') == (0 if old((" + STORED + " if " + VAR + " in self.player.vars else 0) if " +
                   PERSIST + " else self._enabled) is True else 1)"),
                  ("EN1: every actual change of the enabled flag - persisted in a player variable or not - is announced "
                   "to the templates subscribed to it (device attribute `enabled`, C16): the class is monitored for "
                   "`enabled` (structural obligation MON), so the assignment of the flag announces it; an explicit "
                   "notification on top of that carries exactly (old, new), and there is none without a change",
                   "(n_notified() == 0 or notified_enabled(False, True)) if n_hook('_enable') == 1 else "
                   "n_notified() == 0")],
         modifies=["self._enabled", "self.player.vars.**"], raises={})
    C.fn("EnableDisableMixin.disable",
         requires=[NOT_RESERVED(VAR), ("a persisted flag can only be written while a player is bound",
                                       "implies(" + PERSIST + ", self.player is not None)")],
         ensures=[("the flag is cleared where it lives",
                   "(" + STORED + " is False) if " + PERSIST + " else (self._enabled is False)"),
                  ("EN2: every actual change is announced once (see EN1)",
                   "(n_notified() == 0 or notified_enabled(True, False)) if n_hook('_disable') == 1 else "
                   "n_notified() == 0")],
         modifies=["self._enabled", "self.player.vars.**"], raises={})


def logic_block_part(C):
    """persisted logic-block state: the device's state object IS the object stored in the bound player's variable"""
    common.declare_delay_client(C)
    def key_of(I):
        dev = I.frames[0].env.get("self")
        if dev is None or dev.tag != "obj" or dev.ref.cls == "Player":
            return None
        return I.force(I.read_field(dev.ref, "player_state_variable"))
    STATE = ObjS("LogicBlockState", enabled=Bool, completed=Bool, value=Scalar)
    declare_player(C, STATE, key_of)
    NOTINT = ("player variable names are not the four internal attribute names",
              "name != 'log' and name != 'machine' and name != 'vars' and name != '_events_enabled'")
    C.fn("Player._send_variable_event", inline=True, loops={0: LoopSpec(invariant=[], modifies=[])})
    C.fn("Player.__setattr__", params=dict(name=Str), requires=[NOTINT], inline=True)
    C.fn("Player.__getattr__", inline=True)
    C.fn("Player.__getitem__", inline=True)
    C.fn("Player.__setitem__", params=dict(name=Str), requires=[NOTINT], inline=True)
    C.fn("Player.is_player_var", inline=True)
    C.cls("LogicBlockState", file=LB, fields=STATE.fields)
    C.fn("LogicBlockState.__init__", inline=True)
    C.globals["LogicBlockState"] = VCls("LogicBlockState")
    C.cls("Device", fields={})
    C.cls("ModeDevice", fields={}, bases=["Device"])
    C.cls("SystemWideDevice", fields={}, bases=["Device"])
    C.ext("ModeDevice.device_loaded_in_mode", model=common.noop, trusted_reason="base class hook (empty)")
    C.ext("ModeDevice.device_removed_from_mode", model=common.noop, trusted_reason="base class hook")
    C.cls("Mode", fields=dict(name=Str, priority=Int))

    def add_handler(I, env, a, k):
        emit(I, "add_mode_event_handler", event=a[0] if a else k.get("event"), handler=a[1] if len(a) > 1 else
             k.get("handler"))
        return NONE
    C.ext("Mode.add_mode_event_handler", model=add_handler,
          trusted_reason="mode-scoped handler registration (removed with the mode, C07)")
    C.globals["MODE_STARTING_EVENT_TEMPLATE"] = VStr("mode_{}_starting")
    C.cls("LogicBlock", file=LB, bases=["SystemWideDevice", "ModeDevice"], fields=dict(
        config=Rec(persist_state=Bool), _state=Opt(STATE), _start_enabled=Opt(Bool), player_state_variable=Str,
        name=Str, delay=common.DelayMgr))
    START = z3.Int("start_value")
    C.ext("LogicBlock.get_start_value", model=lambda I, env, a, k: VInt(START),
          trusted_reason="abstract: the configured start value of the concrete block (C18)")
    C.helpers["start_value"] = lambda I: VInt(START)
    C.ext("LogicBlock.event_enable", model=common.noop, trusted_reason="control-event handler (C18)")
    C.ext("LogicBlock.post_update_event", model=common.noop, trusted_reason="update event (C18)")
    C.fn("LogicBlock.value", is_property=True, inline=True, no_inv=True)
    C.fn("LogicBlock.value@setter", inline=True, no_inv=True)

    def is_new_obj(I, v):
        v = I.force(v)
        return VBool(v.tag == "obj" and not any(k[0] is v.ref for k in I.old_heap.data))
    C.helpers["is_new_obj"] = is_new_obj
    C.trace_helpers = set()
    VAR = "self.player_state_variable"
    HAD = "old(" + VAR + " in player.vars)"
    C.fn("LogicBlock.device_loaded_in_mode", params=dict(mode=ObjS("Mode"), player=ObjS("Player")),
         requires=[NOT_RESERVED(VAR)],
         ensures=[
             ("S1: with persist_state the device works directly on the object stored in this player's variable",
              "implies(self.config['persist_state'], " + VAR + " in player.vars and self._state is player.vars[" + VAR + "])"),
             ("S2 restore: a state the player already has is the very same object with unchanged progress",
              "implies(self.config['persist_state'] and " + HAD + ", player.vars[" + VAR + "] is old(player.vars[" + VAR +
              "]) and self._state.value == old(player.vars[" + VAR + "].value) and self._state.enabled == old(player.vars[" +
              VAR + "].enabled) and self._state.completed == old(player.vars[" + VAR + "].completed))"),
             ("S3 first turn: a player without the variable gets a new state with the configured start value",
              "implies(self.config['persist_state'] and not " + HAD + ", is_new_obj(self._state) and self._state.value == "
              "start_value() and not self._state.enabled and not self._state.completed)"),
             ("S4: without persist_state the state is a new private object and the player is not written",
              "implies(not self.config['persist_state'], is_new_obj(self._state) and self._state.value == start_value() "
              "and (" + VAR + " in player.vars) == " + HAD + ")"),
         ],
         modifies=["self._state", "player.vars.**"], raises={})
    C.helpers["block_timers_cleared"] = lambda I: VBool(bool([e for e in I.cur_trace() if e.name == "delay.clear"]))
    C.trace_helpers |= {"block_timers_cleared"}
    C.fn("LogicBlock.device_removed_from_mode", params=dict(mode=ObjS("Mode")),
         ensures=[("S5: the link to the player's state is dropped when the mode stops - with or without persist_state - "
                   "and with it every timer of the block (a timeout armed during this player's ball must not act on the "
                   "next player's state)", "self._state is None and block_timers_cleared()")],
         modifies=["self._state", "self.delay.pending.**"], raises={})

    # ---- mode controller
    def modes3(I, name):
        ents = []
        for i in range(3):
            ents.append(("mode%d" % i, VObj(Obj("Mode", ObjS("Mode", is_game_mode=Bool, player=Opt(ObjS("Player"))),
                                                "%s[%d]" % (name, i)))))
        return I.new_dict(ents, name)
    def active2(I, name):
        n = I.ctx.fork(common.bound(2, 3) + 1)
        return I.new_list([VObj(Obj("Mode", ObjS("Mode", is_game_mode=Bool, auto_stop_on_ball_end=Bool,
                                                 restart_on_next_ball=Bool, stopping=Bool, name=Str,
                                                 player=Opt(ObjS("Player"))), "%s[%d]" % (name, i)))
                           for i in range(n)], name)

    def mode_stop(I, env, a, k):
        emit(I, "mode.stop", mode=env["self"].ref, callback=k.get("callback", a[0] if a else NONE))
        return VBool(True)
    C.ext("Mode.stop", model=mode_stop,
          trusted_reason="Mode.stop (C07/C02): registers the callback, which runs once the mode has stopped - also "
                         "when the mode is already stopping")
    C.cls("BallEndQueue", fields=dict(waiting=Bool))

    def q_wait(I, env, a, k):
        I.write_field(env["self"].ref, "waiting", VBool(True))
        emit(I, "queue.wait")
        return NONE

    def q_clear(I, env, a, k):
        I.write_field(env["self"].ref, "waiting", VBool(False))
        emit(I, "queue.clear")
        return NONE
    C.ext("BallEndQueue.wait", model=q_wait, trusted_reason="QueuedEvent (C02)")
    C.ext("BallEndQueue.clear", model=q_clear, trusted_reason="QueuedEvent (C02)")
    C.cls("ModeController", file=MC, fields=dict(
        machine=ObjS("MachineController", modes=Init(modes3),
                     game=ObjS("Game", player=ObjS("GamePlayer", restart_modes_on_next_ball=Init(
                         lambda I, name: I.new_list([], name))))),
        active_modes=Init(active2), queue=Opt(ObjS("BallEndQueue")), mode_stop_count=Int))

    def stops_requested(I):
        """every active game mode that stops at ball end got exactly one stop(callback=_mode_stopped_callback), in
        order - including modes that are already stopping - and nobody else"""
        this = I.frames[0].env["self"].ref
        modes = I.container(I.force(I.read_field(this, "active_modes", heap=I.old_heap)).ref, heap=I.old_heap).items
        evs = events_named(I, "mode.stop")
        want = []
        conds = []
        # the set of modes is concrete, their flags symbolic: build the expected call list under each flag valuation
        for m in modes:
            g = z3.And(I.truth(I.read_field(m.ref, "is_game_mode", heap=I.old_heap)),
                       I.truth(I.read_field(m.ref, "auto_stop_on_ball_end", heap=I.old_heap)))
            n_calls = len([e for e in evs if e.args["mode"] is m.ref])
            cb_ok = all(I.force(e.args["callback"]).tag == "fn" and I.force(e.args["callback"]).kind == "bound" and
                        I.force(e.args["callback"]).name == "_mode_stopped_callback"
                        for e in evs if e.args["mode"] is m.ref)
            conds.append(z3.If(g, z3.BoolVal(n_calls == 1 and cb_ok), z3.BoolVal(n_calls == 0)))
        return VBool(z3.And(*conds) if conds else z3.BoolVal(True))
    C.helpers["stops_requested"] = stops_requested
    C.helpers["n_mode_stops"] = lambda I: VInt(len(events_named(I, "mode.stop")))
    C.helpers["n_queue_clear"] = lambda I: VInt(len(events_named(I, "queue.clear")))
    C.helpers["n_queue_wait"] = lambda I: VInt(len(events_named(I, "queue.wait")))
    C.trace_helpers |= {"stops_requested", "n_mode_stops", "n_queue_clear", "n_queue_wait"}
    C.fn("ModeController._ball_ending", params=dict(queue=ObjS("BallEndQueue")),
         loops={0: LoopSpec(invariant=[], unroll=True)},
         ensures=[("T3: the ball does not end (and the next player's turn cannot start) before every game mode that "
                   "stops at ball end has stopped: each of them - also one that is already stopping - is asked to "
                   "stop with the completion callback, and the count of awaited callbacks is their number",
                   "stops_requested() and implies(len(old(self.active_modes)) > 0, self.mode_stop_count == "
                   "n_mode_stops())"),
                  ("the queue is held exactly while a stop is awaited",
                   "implies(len(old(self.active_modes)) > 0, n_queue_wait() == 1 and n_queue_clear() == "
                   "(1 if n_mode_stops() == 0 else 0))")],
         modifies=["self.queue", "self.mode_stop_count", "queue.waiting",
                   "self.machine.game.player.restart_modes_on_next_ball.**"], raises={},
         bounded="BOUNDED: at most %d active modes" % common.bound(2, 3))
    C.fn("ModeController._mode_stopped_callback",
         requires=[("a stop is awaited", "self.mode_stop_count >= 1 and self.queue is not None")],
         ensures=[("the queue is released exactly when the last awaited mode has stopped",
                   "self.mode_stop_count == old(self.mode_stop_count) - 1 and n_queue_clear() == "
                   "(1 if self.mode_stop_count == 0 else 0)")],
         modifies=["self.mode_stop_count", "self.queue.waiting"], raises={})

    def modes_point_at(I, target):
        this = I.frames[0].env["self"].ref
        modes = I.container(I.force(I.read_field(I.force(I.read_field(this, "machine")).ref, "modes")).ref)
        out = []
        for _, m in modes.entries:
            g = I.truth(I.read_field(m.ref, "is_game_mode"))
            cur = I.read_field(m.ref, "player")
            old = I.read_field(m.ref, "player", heap=I.old_heap)
            out.append(z3.If(g, I.eq(cur, target), I.eq(cur, old)))
        return VBool(z3.And(*out))
    C.helpers["modes_point_at"] = modes_point_at
    B = "BOUNDED: 3 modes"
    # T1 / T2 (_player_turn_start / _player_turn_ended: which player the game modes point at) are in late_player_set()


def mode_controller_set(pid):
    """the ModeController part (ball_ending holds the queue until every game mode has stopped), for re-use by the
    properties that depend on it (C02 queue events, C06 ball end)"""
    c = ContractSet("C11", "game modes stop before the ball ends")
    c.strings = True
    logic_block_part(c)
    c.pid = pid
    c.replay_pid = "C11"
    c.only_verify = ["ModeController._ball_ending", "ModeController._mode_stopped_callback"]
    return c


def enabled_is_monitored(C):
    """MON: EnableDisableMixin (and its system-wide twin) are decorated with DeviceMonitor("enabled"): every assignment
    that changes `enabled` - also one that goes to a player variable through the property setter - completes the futures
    of the templates subscribed to it (DeviceMonitor.__setattr__, native check c16_inherited_monitored_attribute.py)"""
    import ast as pyast
    from pyvc import extract
    src, tree = extract.load_module("mpf/core/enable_disable_mixin.py")
    rows = []
    for node in tree.body:
        if isinstance(node, pyast.ClassDef) and node.name in ("EnableDisableMixin", "EnableDisableMixinSystemWideDevice"):
            ok = any(isinstance(d, pyast.Call) and getattr(d.func, "id", None) == "DeviceMonitor" and
                     any(isinstance(a, pyast.Constant) and a.value == "enabled" for a in d.args)
                     for d in node.decorator_list)
            rows.append(("MON: %s is monitored for 'enabled'" % node.name, ok,
                         "decorated with DeviceMonitor('enabled')" if ok else "NOT decorated with DeviceMonitor('enabled'): "
                         "a change of the flag is no longer announced by its assignment"))
    if len(rows) != 2:
        rows.append(("MON: both enable/disable mixin classes exist", False, "found %d" % len(rows)))
    return rows


def logic_block_leak_check():
    return common.native_demo_check(
        "c11_logic_block_timer_leaks_to_next_player.py",
        "a logic block's timeout / hit window of one player's ball does not act on the next player's persisted state")


def late_player_set(pid="C11l"):
    """a player added during another player's ball is in the player list at once, but his player_added event waits for the
    player_adding queue: his first turn may start BEFORE it.  Whatever the order, the per-player list of modes to restart
    exists from the turn start on (ball_starting iterates it, ball_ending appends to it; an unset player variable reads
    as the int 0)"""
    C = ContractSet(pid, "the turn of a player who is still being added")
    C.replay_pid = "C11"
    C.strings = False
    C.cls("ModeI", fields=dict(is_game_mode=Bool, player=Opt(ObjS("PlayerV"))))
    C.ext("ModeI.start", model=lambda I, env, a, k: (emit(I, "mode.start", mode=env["self"].ref), NONE)[1],
          trusted_reason="Mode.start (C07)")

    def restart_var(I, name):
        """never set (reads as 0), or a list of 0..2 modes"""
        k = I.ctx.fork(4)
        if k == 0:
            return VInt(0)
        return I.new_list([I.fresh(ObjS("ModeI"), "%s[%d]" % (name, i)) for i in range(k - 1)], name)
    C.cls("PlayerV", fields=dict(restart_modes_on_next_ball=Init(restart_var)))

    def is_var(I, env, a, k):
        assert I.pyconst(I.force(a[0])) == "restart_modes_on_next_ball"
        return VBool(I.force(I.read_field(env["self"].ref, "restart_modes_on_next_ball")).tag == "list")
    C.ext("PlayerV.is_player_var", model=is_var, pure=True,
          trusted_reason="Player.is_player_var: whether the variable was ever set (an unset one reads as 0)")

    def modes2(I, name):
        return I.new_dict([("mode%d" % i, I.fresh(ObjS("ModeI"), "%s[%d]" % (name, i))) for i in range(2)], name)
    C.cls("ModeController", file=MC, fields=dict(
        machine=ObjS("MachineController", modes=Init(modes2), game=ObjS("GameI", player=ObjS("PlayerV"))),
        active_modes=Init(lambda I, name: I.new_list([], name))))      # between turns every game mode has stopped
    C.cls("GameI", fields=dict(player=ObjS("PlayerV")))
    C.ext("ModeController.debug_log", model=common.noop, trusted_reason="logging")
    def modes_point_at(I, target):
        this = I.frames[0].env["self"].ref
        modes = I.container(I.force(I.read_field(I.force(I.read_field(this, "machine")).ref, "modes")).ref)
        out = []
        for _, m in modes.entries:
            g = I.truth(I.read_field(m.ref, "is_game_mode"))
            cur = I.read_field(m.ref, "player")
            old = I.read_field(m.ref, "player", heap=I.old_heap)
            out.append(z3.If(g, I.eq(cur, target), I.eq(cur, old)))
        return VBool(z3.And(*out))
    C.helpers["modes_point_at"] = modes_point_at
    C.helpers["is_list"] = lambda I, v: VBool(I.force(v).tag == "list")
    C.helpers["n_mode_starts"] = lambda I: VInt(len(events_named(I, "mode.start")))
    C.trace_helpers = {"n_mode_starts"}
    C.fn("ModeController._player_turn_start", params=dict(player=ObjS("PlayerV"), kwargs=Opaque("Kwargs")),
         loops={0: LoopSpec(invariant=[], unroll=True)},
         ensures=[("PT0: from the start of a player's turn on his list of modes to restart exists - whether his "
                   "player_added event has been handled or is still waiting for the player_adding queue (a player added "
                   "during the previous player's ball): the ball-start and ball-end handlers iterate and append to it",
                   "is_list(player.restart_modes_on_next_ball)"),
                  ("T1: every game mode points at the player whose turn starts; other modes are untouched",
                   "modes_point_at(player)"),
                  ("modes collected for the player before are kept",
                   "implies(is_list(old(player.restart_modes_on_next_ball)), player.restart_modes_on_next_ball is "
                   "old(player.restart_modes_on_next_ball))")],
         modifies=["player.restart_modes_on_next_ball", "self.machine.modes['mode0'].player",
                   "self.machine.modes['mode1'].player"], raises={}, bounded="BOUNDED: 2 modes")
    C.fn("ModeController._player_turn_ended", params=dict(player=ObjS("PlayerV"), kwargs=Opaque("Kwargs")),
         loops={0: LoopSpec(invariant=[], unroll=True)},
         ensures=[("T2: between turns no game mode points at any player", "modes_point_at(None)")],
         modifies=["self.machine.modes['mode0'].player", "self.machine.modes['mode1'].player"], raises={},
         bounded="BOUNDED: 2 modes")
    C.fn("ModeController._player_added", params=dict(player=ObjS("PlayerV"), num=Int, kwargs=Opaque("Kwargs")),
         ensures=[("PT1: the list exists once the player is announced; a list that exists already (the player's turn started "
                   "before the announcement) is kept with what it holds",
                   "is_list(player.restart_modes_on_next_ball) and implies(is_list(old(player.restart_modes_on_next_ball)), "
                   "player.restart_modes_on_next_ball is old(player.restart_modes_on_next_ball))")],
         modifies=["player.restart_modes_on_next_ball"], raises={}, allow_decorators=["classmethod"])
    C.fn("ModeController._ball_starting", params=dict(queue=Opaque("Queue"), kwargs=Opaque("Kwargs")),
         requires=[("PT0 held at the turn start that precedes every ball start (C06: player_turn_started comes before "
                    "ball_starting) and nothing un-sets a player variable",
                    "is_list(self.machine.game.player.restart_modes_on_next_ball)")],
         loops={0: LoopSpec(invariant=[], unroll=True)},
         ensures=[("every mode collected for the player is restarted once and the list starts empty for this ball",
                   "n_mode_starts() == len(old(self.machine.game.player.restart_modes_on_next_ball)) and "
                   "len(self.machine.game.player.restart_modes_on_next_ball) == 0")],
         modifies=["self.machine.game.player.restart_modes_on_next_ball"], raises={},
         bounded="BOUNDED: at most 2 modes to restart")
    if pid == "C11l":
        C.finite_checks.append(common.native_demo_check("c11_mode_starting_across_ball_end.py", "a game mode whose start is held across a ball end does not come up in the next player's turn with the previous player's state"))
        C.finite_checks.append(logic_block_leak_check())
    C.finite_checks.append(common.native_demo_check(
        "c06_turn_of_player_being_added.py",
        "a player whose player_adding queue is still held gets his turn when the previous player's ball ends"))
    return C


BONUS = "mpf/modes/bonus/code/bonus.py"
SCOREQ = "mpf/devices/score_queue.py"


def scoring_set():
    """two places where points are accumulated outside the player object before they reach it: the bonus mode's subtotal
    (must start from zero for every bonus run, whoever was up before) and the score queue of solid-state games (the ball
    must not end - and the next player's turn start - while an entry is still being rung up)"""
    C = ContractSet("C11s", "points in flight reach the player they belong to")
    C.strings = False
    C.cls("Mode", fields={})
    C.cls("EventManager", fields={})
    C.ext("EventManager.post", model=lambda I, env, a, k: (emit(I, "post", event=a[0]), NONE)[1],
          trusted_reason="event posting (C01)")
    common.declare_delay_client(C)
    C.cls("GameI", fields=dict(tilted=Bool))
    C.cls("Bonus", file=BONUS, bases=["Mode"], fields=dict(
        bonus_score=Opt(Int), bonus_entries=Seq(Opaque("Entry")), bonus_iterator=Opaque("Any"), display_delay=Int,
        settings=Rec(display_delay_ms=Int, hurry_up_event=Opt(Str), end_bonus_event=Opt(Str)), delay=common.DelayMgr,
        machine=ObjS("MachineController", game=Opt(ObjS("GameI")), events=ObjS("EventManager"))))
    C.globals["iter"] = VFn("model", model=lambda I, a, k: VOpaque("Any", z3.Const(I.fresh_name("iterator"), usort("Any"))))
    for m_ in ("stop", "_reset_all_scores", "add_mode_event_handler"):
        C.ext("Bonus." + m_, model=(lambda nm: lambda I, env, a, k: (emit(I, nm), NONE)[1])(m_),
              trusted_reason="Mode.stop / bonus entry reset / mode handler registration (C07)")
    C.helpers["n_stop"] = lambda I: VInt(len(events_named(I, "stop")))
    C.trace_helpers = {"n_stop"}
    C.fn("Bonus.mode_start", params=dict(kwargs=Opaque("Kwargs")),
         requires=[("bonus entries are configured", "len(self.bonus_entries) > 0")],
         ensures=[("BN1: every bonus run starts its subtotal from ZERO - whatever an earlier run (of this or another "
                   "player, possibly aborted before its payout) left behind",
                   "implies(n_stop() == 0, self.bonus_score == 0)")],
         modifies=["self.bonus_score", "self.bonus_iterator", "self.display_delay", "self.delay.pending.**"],
         raises={}, skip_frame=True)

    # ---- score queue
    C.cls("SystemWideDevice", fields={})
    C.cls("AsyncEvent", fields=dict(flag=Bool))
    C.ext("AsyncEvent.set", model=lambda I, env, a, k: (I.write_field(env["self"].ref, "flag", VBool(True)), NONE)[1],
          trusted_reason="asyncio.Event")
    C.cls("AsyncQueue", fields=dict(n=Int))

    def rely_scores(I):
        """while the task is suspended handlers may call score(): more entries are queued and the empty flag is cleared
        (never set: only this task sets it)"""
        saved = I.modified
        I.modified = set()
        try:
            this = I.frames[0].env["self"].ref
            q = I.force(I.read_field(this, "_score_queue")).ref
            n0 = I.force(I.read_field(q, "n")).t
            if I.ctx.fork(2) == 1:
                I.havoc_field(q, "n")
                I.ctx.assume(I.force(I.read_field(q, "n")).t > n0)
                fl = I.force(I.read_field(this, "_score_queue_empty")).ref
                I.write_field(fl, "flag", VBool(False))
        finally:
            I.rely_modified |= I.modified
            I.modified = saved

    def q_get(I, env, a, k):
        rely_scores(I)
        n = I.force(I.read_field(env["self"].ref, "n")).t
        # get() returns once an entry is there: if the queue was empty, score() has queued one (and cleared the flag)
        if I.ctx.branch(n <= 0):
            this = I.frames[0].env["self"].ref
            I.write_field(I.force(I.read_field(this, "_score_queue_empty")).ref, "flag", VBool(False))
            I.write_field(env["self"].ref, "n", VInt(z3.IntVal(0)))
        else:
            I.write_field(env["self"].ref, "n", VInt(n - 1))
        v = z3.Int(I.fresh_name("queued_score"))
        return VInt(v)
    C.ext("AsyncQueue.get", model=q_get, trusted_reason="asyncio.Queue.get (A-ASYNCIO): FIFO, suspends while empty")
    C.ext("AsyncQueue.empty", model=lambda I, env, a, k: VBool(I.force(I.read_field(env["self"].ref, "n")).t == 0),
          trusted_reason="asyncio.Queue.empty")
    C.globals["asyncio"] = VFn("module", name="asyncio")
    C.globals["asyncio.sleep"] = VFn("model", model=lambda I, a, k: (rely_scores(I), NONE)[1])
    C.globals["math"] = VFn("module", name="math")
    LOG10 = z3.Function("py_log10", z3.IntSort(), z3.RealSort())
    C.globals["math.log10"] = VFn("model", model=lambda I, a, k: VReal(LOG10(I.num(a[0])[1])))
    def mfloor(I, a, k):
        r = z3.ToInt(I.num(a[0])[1])
        # scores below 10 ** len(chimes): a larger score indexes the chime list out of range (IndexError in the real
        # code, `len(chimes) >= digit_pos` instead of `>`): recorded as a candidate defect, outside this property
        I.ctx.assume(z3.And(r >= 0, r < 2))
        return VInt(r)
    C.globals["math.floor"] = VFn("model", model=mfloor)
    POW10 = z3.Function("py_pow10", z3.IntSort(), z3.IntSort())

    def mpow(I, a, k):
        e = I.num(a[1])[1]
        r = POW10(e)
        I.ctx.assume(r >= 1)
        return VReal(z3.ToReal(r))
    C.globals["math.pow"] = VFn("model", model=mpow)
    C.cls("PlayerI", fields={})
    C.ext("PlayerI.__getitem__", model=lambda I, env, a, k: VInt(z3.Int(I.fresh_name("player_score"))),
          trusted_reason="player variable (C11 main set)")
    C.ext("PlayerI.__setitem__", model=lambda I, env, a, k: (emit(I, "scored", value=a[1]), NONE)[1],
          trusted_reason="player variable (C11 main set)")
    C.cls("ChimeI", fields={})
    C.ext("ChimeI.pulse", model=common.noop, trusted_reason="chime coil (C08)")
    C.cls("GameQ", fields=dict(player=ObjS("PlayerI")))
    C.cls("ScoreQueue", file=SCOREQ, bases=["SystemWideDevice"], fields=dict(
        _score_queue=ObjS("AsyncQueue"), _score_queue_empty=ObjS("AsyncEvent"), name=Str,
        config=Rec(chimes=Init(lambda I, n: I.new_list([NONE, I.fresh(ObjS("ChimeI"), n + "[1]")], n)), delay=Real),
        machine=ObjS("MachineController", game=ObjS("GameQ"))))
    QINV = ("SQ1: the empty flag - which lets the ball end and the next player's turn begin - is set only while nothing is "
            "queued and nothing is being rung up", "implies(self._score_queue_empty.flag, self._score_queue.n == 0)")
    C.fn("ScoreQueue._handle_score_queue",
         requires=[QINV, ("queue size is not negative", "self._score_queue.n >= 0")],
         loops_by_text={
             "True": LoopSpec(invariant=[QINV, ("queue size is not negative", "self._score_queue.n >= 0")],
                              modifies=["self._score_queue.n", "self._score_queue_empty.flag"]),
             "score > 0": LoopSpec(invariant=[("while an entry is rung up the flag stays clear",
                                               "not self._score_queue_empty.flag"),
                                              ("queue size is not negative", "self._score_queue.n >= 0")],
                                   modifies=["self._score_queue.n", "self._score_queue_empty.flag"])},
         modifies=["self._score_queue.n", "self._score_queue_empty.flag"], raises={},
         bounded="BOUNDED: two chimes; scores below 100 (a score of 10 ** len(chimes) or more raises IndexError in the real "
                 "code - candidate defect, DESIGN 9.5)")
    return C


VP = "mpf/config_players/variable_player.py"


def variable_player_set():
    """variable_player entries that name a player (player: N, counted from 1) write to THAT player's variables, whoever
    is up; entries without one write to the current player"""
    C = ContractSet("C11v", "variable_player addresses the right player")
    C.strings = False
    C.cls("ConfigPlayer", fields={})
    C.cls("TemplateI", fields=dict(value=Int))
    C.ext("TemplateI.evaluate", model=lambda I, env, a, k: I.read_field(env["self"].ref, "value"), pure=True,
          trusted_reason="template evaluation (C16)")
    C.cls("PlayerI", fields={})
    for m_ in ("add_with_kwargs", "set_with_kwargs"):
        C.ext("PlayerI." + m_, model=(lambda nm: lambda I, env, a, k: (emit(
            I, "player_write", kind=nm, player=env["self"].ref, var=a[0], value=a[1]), NONE)[1])(m_),
            trusted_reason="Player.add_with_kwargs / set_with_kwargs: changes the variable of THAT player (C11 main set)")
    NP = 3

    def players(I, name):
        return I.new_list([I.fresh(ObjS("PlayerI"), "%s[%d]" % (name, i)) for i in range(I.ctx.fork(NP) + 1)], name)
    C.cls("GameI", fields=dict(player=ObjS("PlayerI"), player_list=Init(players), num_players=Int))
    C.cls("VariablePlayer", file=VP, bases=["ConfigPlayer"], fields=dict(
        machine=ObjS("MachineController", game=ObjS("GameI"))))
    C.ext("VariablePlayer.warning_log", model=common.noop, trusted_reason="logging")

    def wrote_to(I, entry, var, value):
        evs = events_named(I, "player_write")
        if len(evs) == 0:
            # nothing is written exactly when the entry names a player the game does not have
            game = I.force(I.read_field(I.force(I.read_field(I.frames[0].env["self"].ref, "machine")).ref, "game")).ref
            nplayers = len(I.container(I.force(I.read_field(game, "player_list")).ref).items)
            pn = I.force(I.getitem(I.force(entry), VStr("player")))
            out = []
            for g_, alt in (pn.alts if isinstance(pn, VUnion) else ((z3.BoolVal(True), pn),)):
                if alt.tag != "none":
                    out.append(z3.And(g_, alt.t > nplayers))
            return VBool(z3.Or(out + [z3.BoolVal(False)]))
        if len(evs) != 1:
            return VBool(False)
        e = evs[0]
        game = I.force(I.read_field(I.force(I.read_field(I.frames[0].env["self"].ref, "machine")).ref, "game")).ref
        cur = I.force(I.read_field(game, "player")).ref
        plist = [I.force(x).ref for x in I.container(I.force(I.read_field(game, "player_list")).ref).items]
        ent = I.force(entry)
        pn = I.force(I.getitem(ent, VStr("player")))
        act = I.pyconst(I.force(I.getitem(ent, VStr("action"))))
        kind_ok = e.args["kind"] == ("add_with_kwargs" if act == "add" else "set_with_kwargs")
        cases = []
        for g_, alt in (pn.alts if isinstance(pn, VUnion) else ((z3.BoolVal(True), pn),)):
            if alt.tag == "none":
                cases.append(z3.And(g_, z3.BoolVal(e.args["player"] is cur)))
                continue
            n = alt.t
            sub = [z3.And(n == 0, z3.BoolVal(e.args["player"] is cur))]
            for i, p_ in enumerate(plist):
                sub.append(z3.And(n == i + 1, z3.BoolVal(e.args["player"] is p_)))
            cases.append(z3.And(g_, z3.Or(sub)))
        return VBool(z3.And(z3.BoolVal(bool(kind_ok)), I.eq(e.args["var"], var), I.eq(e.args["value"], value), z3.Or(cases)))
    C.helpers["wrote_to_addressed_player"] = wrote_to
    C.trace_helpers = {"wrote_to_addressed_player"}
    C.fn("VariablePlayer._set_variable",
         params=dict(var=Str, entry=Rec(float=NoneT, int=ObjS("TemplateI"), string=NoneT,
                                        action=Union(Const("add"), Const("set")), player=Opt(Int)),
                     placeholder_parameters=Opaque("Params"), context=Str),
         requires=[("a value is configured", "entry['int'] is not None"),
                   ("player numbers are not negative", "entry['player'] is None or entry['player'] >= 0")],
         ensures=[("VP1: exactly one write, of the evaluated value, to the variable of the ADDRESSED player: player N "
                   "(counted from 1, player 1 included) when the game has that many players - whoever is up - and the "
                   "current player when no player is named; an entry for a player the game does not have writes NOTHING "
                   "(it must not change the current player's variables instead)",
                   "wrote_to_addressed_player(entry, var, entry['int'].value)")],
         modifies=[], raises={},
         bounded="BOUNDED: games of at most %d players; int-valued entries with action add / set" % NP)
    return C


def timer_var_set():
    """the timer device mirrors its count into a variable of the player it is loaded with: the device (and its cached
    count) outlives players and games, the variable belongs to ONE player - so every write of the count, also of a value
    the device already holds, reaches the current player's variable"""
    C = ContractSet("C11w", "a timer's tick variable is written for the current player")
    C.strings = False
    C.cls("ModeDevice", fields={})
    C.cls("PlayerI", fields={})
    C.ext("PlayerI.__setitem__", model=lambda I, env, a, k: (emit(I, "player_set", player=env["self"].ref, name=a[0],
                                                                  value=a[1]), NONE)[1],
          trusted_reason="Player.__setitem__: sets the variable of that player and posts player_<name> (C11 main set)")
    C.cls("Timer", file="mpf/devices/timer.py", bases=["ModeDevice"], check_bases=False,
          fields=dict(_ticks=Int, player=Opt(ObjS("PlayerI")), tick_var=Str))

    def mirrored(I, value):
        this = I.frames[0].env["self"].ref
        pl = I.force(I.read_field(this, "player"))
        evs = events_named(I, "player_set")
        cases = []
        for g_, alt in (pl.alts if isinstance(pl, VUnion) else ((z3.BoolVal(True), pl),)):
            if alt.tag == "none":
                cases.append(z3.And(g_, z3.BoolVal(len(evs) == 0)))
            else:
                ok = len(evs) == 1 and evs[0].args["player"] is alt.ref
                cases.append(z3.And(g_, z3.BoolVal(bool(ok)),
                                    *([I.eq(evs[0].args["name"], I.read_field(this, "tick_var")),
                                       I.eq(evs[0].args["value"], value)] if ok else [])))
        return VBool(z3.Or(cases))
    C.helpers["mirrored_to_current_player"] = mirrored
    C.trace_helpers = {"mirrored_to_current_player"}
    C.fn("Timer.ticks@setter", params=dict(value=Int),
         ensures=[("TV1: the count is stored and - whenever the timer is loaded for a player - written to THAT player's "
                   "tick variable, once; also when the device already holds this value (it may hold it from the previous "
                   "player or game: the new player's variable still has to be initialised)",
                   "self._ticks == value and mirrored_to_current_player(value)")],
         modifies=["self._ticks"], raises={})
    return C


def build_extra():
    C2 = ContractSet("C11", "persisted enable flags of mode devices (EnableDisableMixin)")
    C2.strings = True
    mixin_part(C2)
    C2.finite_checks.append(enabled_is_monitored)
    C3 = ContractSet("C11", "persisted logic-block state and the per-turn player pointer of game modes")
    C3.strings = True
    logic_block_part(C3)
    # the timer device keeps its player after the mode stops: what C11 needs from it is that a removed timer has
    # nothing left that could run later (the Timer contracts of C13, re-checked here)
    from . import C13
    C4 = C13.build()
    C4.pid = "C11t"
    C4.only_verify = ["Timer.stop", "Timer.device_removed_from_mode"]
    return [C2, C3, C4, scoring_set(), variable_player_set(), timer_var_set(), late_player_set()]
