"""C09 - Light hardware output equals the priority stack's colour.

* RGBColor.blend: every channel of the blend lies between the endpoints (nonlinear real arithmetic).
* Stack representation invariant (bounded to 2 existing entries, all fields symbolic): _add_to_stack keeps the stack
  sorted by (priority, key) descending with one entry per key; _remove_from_stack_by_key filters exactly that key
  (removing a key restores what is beneath); clear_stack empties it.
* Back ends: ghost `eventual` = the brightness the channel shows once every scheduled fade task has run.
  LightPlatformDirectFade.set_fade must leave eventual = the commanded target; _fade clamps to [0,1] and ends
  on the target; VirtualLight.set_fade/current_brightness.
"""
import z3

from pyvc.contract import ContractSet, LoopSpec
from pyvc.vals import *       # noqa
from pyvc.interp import MISSING
from . import common
from .common import emit, events_named

LIGHT = "mpf/devices/light.py"
RGB = "mpf/core/rgb_color.py"
LPI = "mpf/platforms/interfaces/light_platform_interface.py"
VIRT = "mpf/platforms/virtual.py"


def build():
    C = ContractSet("C09", "Light hardware output equals the priority stack's colour")
    from .C01 import list_sort
    C.helpers["list_sort"] = list_sort

    # ------------------------------------------------------------------ RGBColor.blend
    COLOR = ObjS("RGBColor", rgb=TupleS(Int, Int, Int))
    C.cls("RGBColor", file=RGB, fields={})

    def rgb_new(I, args, kwargs):
        o = Obj("RGBColor", ObjS("RGBColor", {}), I.fresh_name("RGBColor"))
        o.fresh = True
        I.heap.data[(o, "rgb")] = args[0] if args else VTuple([VInt(0), VInt(0), VInt(0)])
        return VObj(o)
    C.fns["RGBColor.__init__"] = None
    del C.fns["RGBColor.__init__"]
    C.globals["RGBColor"] = VCls("RGBColor")
    C.ext("RGBColor", model=lambda I, a, k: rgb_new(I, a, k), trusted_reason="RGBColor constructor from an (r,g,b) tuple")

    def between(I, r, a, b):
        rt, at, bt = I.force(r).t, I.force(a).t, I.force(b).t
        return VBool(z3.Or(z3.And(at <= rt, rt <= bt), z3.And(bt <= rt, rt <= at)))
    C.helpers["between"] = between
    C.fn("RGBColor.blend", params=dict(start_color=COLOR, end_color=COLOR, fraction=Real),
         requires=[("channels are 0..255",
                    "0 <= start_color.rgb[0] <= 255 and 0 <= start_color.rgb[1] <= 255 and 0 <= start_color.rgb[2] <= 255 "
                    "and 0 <= end_color.rgb[0] <= 255 and 0 <= end_color.rgb[1] <= 255 and 0 <= end_color.rgb[2] <= 255")],
         result=COLOR,
         ensures=[("running fades are interpolated between their endpoints and never outside them (every channel)",
                   "between(result.rgb[0], start_color.rgb[0], end_color.rgb[0]) and "
                   "between(result.rgb[1], start_color.rgb[1], end_color.rgb[1]) and "
                   "between(result.rgb[2], start_color.rgb[2], end_color.rgb[2])"),
                  ("the endpoints are reached exactly",
                   "implies(fraction == 0, result.rgb == start_color.rgb) and implies(fraction == 1, result.rgb == end_color.rgb)")],
         raises={"AssertionError": "not (0.0 <= fraction <= 1.0)"}, modifies=[])

    # ------------------------------------------------------------------ the stack (bounded)
    ENTRY = ObjS("LightStackEntry", priority=Int, key=Str, start_time=Real, start_color=Opt(COLOR), dest_time=Real,
                 dest_color=Opt(COLOR))
    C.cls("LightStackEntry", file=LIGHT, fields={})
    C.fn("LightStackEntry.__init__", inline=True)
    C.fn("LightStackEntry.__gt__", inline=True)
    C.cls("SystemWideDevice", fields={})
    C.cls("DevicePositionMixin", fields={})

    def stack2(I, name):
        return I.fresh(ListOf(ENTRY, 2), name)
    C.cls("Light", file=LIGHT, bases=["SystemWideDevice", "DevicePositionMixin"], fields=dict(
        stack=Init(stack2), _debug=Bool, machine=ObjS("MachineController", clock=ObjS("ClockBase")),
        _off_color=COLOR))
    C.cls("ClockBase", fields=dict(now=Real))
    C.ext("ClockBase.get_time", model=lambda I, env, a, k: I.read_field(env["self"].ref, "now"),
          trusted_reason="loop clock")
    C.ext("Light.get_color_below", params=dict(priority=Int, key=Str), result=COLOR, pure=True,
          trusted_reason="colour of the stack below an entry (uses _get_color_and_fade; not yet under contract)")
    C.ext("Light._schedule_update", model=lambda I, env, a, k: (emit(I, "schedule_update"), NONE)[1],
          trusted_reason="pushes the stack's target colour to the hardware channels (not yet under contract)")

    def entries(I, heap):
        this = I.frames[0].env["self"].ref
        lst = I.force(I.read_field(this, "stack", heap=heap))
        return [I.force(e).ref for e in heap.data[(lst.ref, "$")].items]

    def fld(I, o, f, heap=None):
        return I.force(I.read_field(o, f, heap=heap or I.heap))

    def gt(I, a, b, heap=None):
        pa, pb = fld(I, a, "priority", heap).t, fld(I, b, "priority", heap).t
        ka, kb = fld(I, a, "key", heap).t, fld(I, b, "key", heap).t
        return z3.Or(pa > pb, z3.And(pa == pb, kb < ka))

    def stack_inv(I, heap=None):
        """S1: sorted by (priority, key), highest first; S2: at most one entry per key"""
        heap = heap or I.heap
        es = entries(I, heap)
        cs = []
        for a, b in zip(es, es[1:]):
            cs.append(gt(I, a, b, heap))
        for i in range(len(es)):
            for j in range(i + 1, len(es)):
                cs.append(fld(I, es[i], "key", heap).t != fld(I, es[j], "key", heap).t)
        return VBool(z3.And(cs + [z3.BoolVal(True)]))
    C.helpers["stack_inv"] = lambda I: stack_inv(I)

    def others_kept(I, key):
        """every entry with another key is still in the stack, unchanged"""
        old, new = entries(I, I.old_heap), entries(I, I.heap)
        kt = I.force(key).t
        cs = []
        for o in old:
            is_other = fld(I, o, "key", I.old_heap).t != kt
            cs.append(z3.Implies(is_other, z3.BoolVal(any(o is n for n in new))))
        return VBool(z3.And(cs + [z3.BoolVal(True)]))
    C.helpers["others_kept"] = others_kept

    def key_gone(I, key):
        kt = I.force(key).t
        return VBool(z3.And([fld(I, n, "key").t != kt for n in entries(I, I.heap)] + [z3.BoolVal(True)]))
    C.helpers["key_gone"] = key_gone

    def has_entry(I, key, priority, color):
        kt, pt = I.force(key).t, I.force(priority).t
        cs = []
        for n in entries(I, I.heap):
            dc = I.read_field(n, "dest_color")
            cs.append(z3.And(fld(I, n, "key").t == kt, fld(I, n, "priority").t == pt, I.eq(dc, color)))
        return VBool(z3.Or(cs + [z3.BoolVal(False)]))
    C.helpers["has_entry"] = has_entry

    def only_old_or_new(I, key):
        """nothing but the new entry was added"""
        old, new = entries(I, I.old_heap), entries(I, I.heap)
        kt = I.force(key).t
        cs = [z3.Or(z3.BoolVal(any(n is o for o in old)), fld(I, n, "key").t == kt) for n in new]
        return VBool(z3.And(cs + [z3.BoolVal(True)]))
    C.helpers["only_old_or_new"] = only_old_or_new
    C.helpers["prio_of_key"] = lambda I, key: VInt(_prio_of(I, key))

    def _prio_of(I, key):
        kt = I.force(key).t
        r = z3.IntVal(0)
        for o in reversed(entries(I, I.old_heap)):
            r = z3.If(fld(I, o, "key", I.old_heap).t == kt, fld(I, o, "priority", I.old_heap).t, r)
        return r

    def key_live(I, key):
        """the stack held a LIVE entry for the key: one with a colour (the transparent leftover of a removal that is still
        fading out - dest_color None - does not count: its key has been removed by its owner)"""
        kt = I.force(key).t
        cs = []
        for o in entries(I, I.old_heap):
            dc = I.force(I.read_field(o, "dest_color", heap=I.old_heap))
            cs.append(z3.And(fld(I, o, "key", I.old_heap).t == kt, z3.Not(I.is_none(dc))))
        return VBool(z3.Or(cs + [z3.BoolVal(False)]))
    C.helpers["key_live"] = key_live
    for demo_, what_ in (("c09_negative_priority_new_key.py", "a command with a negative priority under a new key takes effect"),
                         ("c09_set_key_while_its_removal_fades.py", "a key can be set again while its faded removal is running")):
        C.finite_checks.append(common.native_demo_check(demo_, what_))
    C.helpers["stack_unchanged"] = lambda I: VBool(entries(I, I.old_heap) == entries(I, I.heap))
    C.fn("Light._get_priority_from_key", params=dict(key=Str), inline=True)
    C.fn("Light._remove_from_stack_by_key", params=dict(key=Str),
         requires=[("S1/S2 hold", "stack_inv()")],
         ensures=[("removing a key leaves exactly the other entries, in order (restores what is beneath)",
                   "key_gone(key) and others_kept(key) and only_old_or_new(key)"),
                  ("S1/S2 preserved", "stack_inv()")],
         modifies=["self.stack"], raises={}, bounded="stack of 2 entries", inline_calls=True)
    C.fn("Light._add_to_stack", params=dict(color=COLOR, fade_ms=Int, priority=Int, key=Opt(Str), start_time=Real),
         requires=[("S1/S2 hold", "stack_inv()"), ("fade_ms >= 0", "fade_ms >= 0")],
         lets={"k": "key if key is not None else ''"},
         ensures=[("S1/S2 preserved: sorted by (priority, key), one entry per key", "stack_inv()"),
                  ("AS1: a command is ignored only when a LIVE entry with the same key has a higher priority",
                   "implies(key_live(k) and priority < old(prio_of_key(k)), stack_unchanged())"),
                  ("AS2: every other command takes effect - under a key the stack does not hold it is added whatever its "
                   "priority (negative ones included, whether or not the stack is empty), and a key whose removal is still "
                   "fading out can be set again at any priority: the entry for this key is (re)placed with the new colour "
                   "and priority",
                   "implies(not (key_live(k) and priority < old(prio_of_key(k))), has_entry(k, priority, color) and "
                   "others_kept(k) and only_old_or_new(k))")],
         modifies=["self.stack", "self.stack.*"], raises={}, bounded="stack of 2 existing entries", shards=6)
    # ---- public removal with fade-out (what a stopping show / player calls)
    C.cls("LightDelay", fields={})

    def delay_reset(I, env, a, k):
        emit(I, "delay.reset", name=k.get("name"), ms=k.get("ms"), callback=k.get("callback"))
        return k.get("name")
    C.ext("LightDelay.reset", model=delay_reset,
          trusted_reason="DelayManager.reset (C13): replaces the pending delay OF THAT NAME by a new one")
    C.classes["Light"].fields.update(dict(delay=ObjS("LightDelay"), default_fade_ms=Int, name=Str))
    C.ext("Light._get_color_and_fade", model=lambda I, env, a, k: VTuple([I.fresh(COLOR, I.fresh_name("color_of_key")),
                                                                         VInt(z3.Int(I.fresh_name("fade"))), VBool(True)]),
          trusted_reason="colour of a stack slice (recursive interpolation; not yet under contract)")
    C.globals["partial"] = VFn("builtin", name="partial")

    def fade_out_entry(I, key):
        """the stack holds a transparent fade-out entry (dest_color None) for the key, with the key's old priority"""
        kt = I.force(key).t
        cs = []
        for n in entries(I, I.heap):
            dc = I.force(I.read_field(n, "dest_color"))
            cs.append(z3.And(fld(I, n, "key").t == kt, I.is_none(dc),
                             fld(I, n, "priority").t == _prio_of(I, key)))
        return VBool(z3.Or(cs + [z3.BoolVal(False)]))
    C.helpers["fade_out_entry"] = fade_out_entry

    def removal_pending_for(I, key, fade_ms):
        """exactly one delayed removal, registered under a name that belongs to this key alone
        ('remove_fade_' + key), calling _remove_fade_out(key=key) after fade_ms"""
        ev = events_named(I, "delay.reset")
        if len(ev) != 1:
            return VBool(False)
        e = ev[0]
        cb = I.force(e.args["callback"])
        ok = cb.tag == "fn" and cb.kind == "partial" and I.force(cb.fn).tag == "fn" and \
            I.force(cb.fn).name == "_remove_fade_out" and set(cb.kwargs) == {"key"} and not cb.args
        if not ok:
            return VBool(False)
        return VBool(z3.And(I.force(e.args["name"]).t == z3.Concat(z3.StringVal("remove_fade_"), I.force(key).t),
                            I.eq(cb.kwargs["key"], key), I.eq(e.args["ms"], fade_ms)))
    C.helpers["removal_pending_for"] = removal_pending_for
    C.helpers["n_delay_resets"] = lambda I: VInt(len(events_named(I, "delay.reset")))

    def key_in_old(I, key):
        kt = I.force(key).t
        return VBool(z3.Or([fld(I, o, "key", I.old_heap).t == kt for o in entries(I, I.old_heap)] + [z3.BoolVal(False)]))
    C.helpers["key_in_old_stack"] = key_in_old

    def old_entry_is_fadeout(I, key):
        kt = I.force(key).t
        cs = [z3.And(fld(I, o, "key", I.old_heap).t == kt, I.is_none(I.force(I.read_field(o, "dest_color", heap=I.old_heap))))
              for o in entries(I, I.old_heap)]
        return VBool(z3.Or(cs + [z3.BoolVal(False)]))
    C.helpers["old_entry_is_fadeout"] = old_entry_is_fadeout
    C.fn("Light._remove_fade_out", params=dict(key=Str),
         loops={0: LoopSpec(invariant=[], unroll=True)},
         requires=[("S1/S2 hold", "stack_inv()")],
         ensures=[("a timed-out fade-out entry of the key is removed; everything else stays",
                   "others_kept(key) and only_old_or_new(key) and implies(old_entry_is_fadeout(key), key_gone(key))"),
                  ("S1/S2 preserved", "stack_inv()")],
         modifies=["self.stack"], raises={}, bounded="stack of 2 entries")
    FADES = "(key_in_old_stack(key) and not old_entry_is_fadeout(key) and (fade_ms if fade_ms is not None else " \
            "self.default_fade_ms) != 0)"
    C.fn("Light.remove_from_stack_by_key", params=dict(key=Str, fade_ms=Opt(Int)),
         loops={0: LoopSpec(invariant=[], unroll=True)},
         requires=[("S1/S2 hold", "stack_inv()"),
                   ("fade times are not negative", "(fade_ms is None or fade_ms >= 0) and self.default_fade_ms >= 0")],
         ensures=[
             ("K1: without a fade the key's settings are gone and everything beneath / above is kept",
              "implies(not " + FADES + ", others_kept(key) and only_old_or_new(key) and n_delay_resets() == 0 and "
              "implies(key_in_old_stack(key) and not old_entry_is_fadeout(key), key_gone(key)))"),
             ("K2: with a fade the settings are replaced by ONE transparent fade-out entry of the same key and "
              "priority, and its removal is pending under a name that belongs to this key alone - so another key's "
              "fade-out on the same light cannot cancel it",
              "implies(" + FADES + ", fade_out_entry(key) and others_kept(key) and only_old_or_new(key) and "
              "removal_pending_for(key, fade_ms if fade_ms is not None else self.default_fade_ms))"),
             ("S1/S2 preserved", "stack_inv()")],
         modifies=["self.stack", "self.stack.*"], raises={}, bounded="stack of 2 entries")
    C.fn("Light.clear_stack",
         ensures=[("removing all keys turns the light off: the stack is empty and an update is pushed",
                   "len(self.stack) == 0 and n_updates() == 1")],
         modifies=["self.stack"], raises={})
    C.helpers["n_updates"] = lambda I: VInt(len(events_named(I, "schedule_update")))
    C.trace_helpers = {"n_updates", "last_set", "all_sets_in_unit", "eventual_is", "removal_pending_for",
                       "n_delay_resets"}

    # ------------------------------------------------------------------ direct / software fade back end
    C.cls("Task", fields=dict(target=Real, cancelled=Bool))
    C.ext("Task.cancel", model=lambda I, env, a, k: (I.write_field(env["self"].ref, "cancelled", VBool(True)), NONE)[1],
          trusted_reason="asyncio.Task.cancel (A-ASYNCIO): a cancelled fade task issues no further brightness command")
    def add_done_cb(I, env, a, k):
        emit(I, "add_done_callback", task=env["self"].ref, callback=a[0])
        return NONE
    C.ext("Task.add_done_callback", model=add_done_cb,
          trusted_reason="asyncio (A-ASYNCIO): the callback runs - later, from the loop - once the task is done or cancelled")
    C.cls("FadeLoop", fields=dict(now=Real))
    C.ext("FadeLoop.time", model=lambda I, env, a, k: I.read_field(env["self"].ref, "now"), trusted_reason="loop clock")

    def create_task(I, env, args, kwargs):
        coro = I.force(args[0])
        o = Obj("Task", ObjS("Task", {}), I.fresh_name("task"))
        o.fresh = True
        I.heap.data[(o, "target")] = coro.items[0] if coro.tag == "tuple" else VReal(z3.Real(I.fresh_name("tgt")))
        I.heap.data[(o, "cancelled")] = VBool(False)
        emit(I, "create_task", task=VObj(o))
        return VObj(o)
    C.ext("FadeLoop.create_task", model=create_task,
          trusted_reason="asyncio loop (A-ASYNCIO): the fade task runs later and ends by commanding its target")
    C.globals["Util"] = VCls("Util")
    C.globals["Util.raise_exceptions"] = VOpaque("Fn", z3.Const("Util.raise_exceptions", usort("Fn")))
    C.cls("LightPlatformInterface", fields={})
    C.cls("LightPlatformDirectFade", file=LPI, bases=["LightPlatformInterface"], fields=dict(
        loop=ObjS("FadeLoop"), task=Opt(ObjS("Task")), ghost_last=Real, max_fade=Int))
    C.ext("LightPlatformDirectFade.get_max_fade_ms", model=lambda I, env, a, k: I.read_field(env["self"].ref, "max_fade"),
          trusted_reason="abstract: the back end's maximum hardware fade (>= 0)")
    C.ext("LightPlatformDirectFade.get_fade_interval_ms", result=Int, ensures=["result >= 0"], pure=True,
          trusted_reason="abstract")

    def sbaf(I, env, args, kwargs):
        emit(I, "hw_set", brightness=args[0], fade_ms=args[1])
        I.write_field(env["self"].ref, "ghost_last", I.force(args[0]) if I.force(args[0]).tag == "real"
                      else VReal(z3.ToReal(I.force(args[0]).t)))
        return NONE
    C.ext("LightPlatformDirectFade.set_brightness_and_fade", model=sbaf,
          trusted_reason="abstract hardware command: the channel ends on this brightness unless a later command comes")

    def fade_coro(I, env, args, kwargs):
        return VTuple([args[2]])        # the coroutine object: remembers its target brightness
    C.ext("LightPlatformDirectFade._fade#coro", model=fade_coro, trusted_reason="calling the coroutine function only creates the coroutine")

    def eventual_is(I, target):
        """once every scheduled fade task has run, the channel shows `target`: the live task (if any) ends on it,
        otherwise the last direct command was it"""
        this = I.frames[0].env["self"].ref
        t = I.read_field(this, "task")
        tv = I.force(target)
        tt = tv.t if tv.tag == "real" else z3.ToReal(tv.t)
        alts = t.alts if isinstance(t, VUnion) else ((z3.BoolVal(True), t),)
        cs = []
        for g, a in alts:
            if a.tag == "none":
                cs.append(z3.And(g, I.force(I.read_field(this, "ghost_last")).t == tt))
            else:
                canc = I.truth(I.read_field(a.ref, "cancelled"))
                tg = I.force(I.read_field(a.ref, "target"))
                tgt = tg.t if tg.tag == "real" else z3.ToReal(tg.t)
                cs.append(z3.And(g, z3.If(canc, I.force(I.read_field(this, "ghost_last")).t == tt, tgt == tt)))
        return VBool(z3.Or(cs))
    C.helpers["eventual_is"] = eventual_is
    def done_callbacks_of_cancelled_task(I, env):
        """the loop's next step: a fade task that this call cancelled is done, so its done-callbacks run now - after
        set_fade has returned.  The old task was created by an earlier call of this same function, so its callbacks
        are the ones this version of the code registers on a new task."""
        t0 = I.frames[0].env.get("$entry_task")
        if t0 is None:
            return
        t0f = I.force(t0)
        if t0f.tag != "obj":
            return
        if not I.ctx.branch(I.truth(I.read_field(t0f.ref, "cancelled"))):
            return
        cbs = [e.args["callback"] for e in I.trace if e.name == "add_done_callback"]
        for cb in cbs:
            cbf = I.force(cb)
            if cbf.tag == "fn":
                I.call(cbf, [t0f], {})
    C.fn("LightPlatformDirectFade.set_fade",
         params=dict(start_brightness=Real, start_time=Real, target_brightness=Real, target_time=Real),
         requires=["self.max_fade >= 0"], lets={"$entry_task": "self.task"},
         epilogue=done_callbacks_of_cancelled_task,
         ensures=[("the brightness last commanded to the channel - once all fades have finished - is the target of "
                   "THIS command (no earlier fade task survives a newer command)", "eventual_is(target_brightness)")],
         modifies=["self.task", "self.task.cancelled", "self.ghost_last"], raises={})
    # the call `self._fade(...)` inside set_fade creates the coroutine: route it to the coroutine model
    C.fns["LightPlatformDirectFade._fade"] = C.fns.pop("LightPlatformDirectFade._fade#coro")
    C.fns["LightPlatformDirectFade._fade"].key = "LightPlatformDirectFade._fade"

    # ------------------------------------------------------------------ virtual light
    C.cls("VirtualLight", file=VIRT, bases=["LightPlatformInterface"], fields=dict(
        _current_fade=TupleS(Real, Real, Real, Real), machine=ObjS("MachineController", clock=ObjS("ClockBase"))))
    C.fn("VirtualLight.set_fade",
         params=dict(start_brightness=Real, start_time=Real, target_brightness=Real, target_time=Real),
         ensures=["self._current_fade == (start_brightness, start_time, target_brightness, target_time)"],
         modifies=["self._current_fade"], raises={})
    C.fn("VirtualLight.current_brightness", is_property=True, result=Real,
         requires=[("a running fade started before it ends", "self._current_fade[1] < self._current_fade[3] or "
                                                             "self._current_fade[3] <= self.machine.clock.now")],
         ensures=[("after the fade has finished the channel shows the commanded target",
                   "implies(self._current_fade[3] <= self.machine.clock.now, result == self._current_fade[2])"),
                  ("during the fade the value lies between the endpoints",
                   "implies(self._current_fade[3] > self.machine.clock.now and self._current_fade[1] <= self.machine.clock.now, "
                   "between(result, self._current_fade[0], self._current_fade[2]))")],
         modifies=[], raises={})

    C.assume("A-FLOAT: brightness/time arithmetic over the reals")
    C.assume("A-ASYNCIO: a created fade task runs later and its last command is its target; cancel() stops it")
    C.assume("in THIS set Light._schedule_update, _get_color_and_fade and _get_color_and_target_time are used through "
             "assumed summaries; they are verified in the further sets of this property (channel shares U1; colour of the "
             "stack T1/T2/F1, bounded stacks); gamma / colour correction are modelled as the identity")
    return C


BLS = "mpf/core/platform_batch_light_system.py"


def build_extra():
    """PlatformBatchLightSystem._send_update_batch: the redundant-update skip is sound only if last_state records what
    the hardware was told last (BOUNDED: batches of 2 lights)"""
    C = ContractSet("C09", "batch light system: hardware state bookkeeping")
    B = "BOUNDED: batches of at most %d lights" % common.bound(2, 3)

    def hw(I):
        return I.__dict__.setdefault("c09_hw", {})

    def hw_get(I, light):
        d = hw(I)
        if light not in d:
            d[light] = z3.Real("hw0[%s]" % light.name)
        return d[light]
    C.cls("PlatformBatchLight", fields={})

    def gfb(I, env, a, k):
        nm = I.fresh_name("fb")
        b, f, dn = z3.Real(nm + ".brightness"), z3.Int(nm + ".fade_ms"), z3.Bool(nm + ".done")
        I.ctx.assume(f >= 0)
        emit(I, "get_fade", light=env["self"].ref, brightness=VReal(b), done=VBool(dn))
        return VTuple([VReal(b), VInt(f), VBool(dn)])
    C.ext("PlatformBatchLight.get_fade_and_brightness", model=gfb,
          trusted_reason="the light's current fade chunk: (brightness to send, fade_ms, done)")
    C.cls("AsyncEvent", fields={})
    C.ext("AsyncEvent.set", model=common.noop, trusted_reason="wakes the scheduler task")
    C.cls("SortedList", fields={})
    C.ext("SortedList.add", model=lambda I, env, a, k: (emit(I, "schedule.add", item=a[0]), NONE)[1],
          trusted_reason="sortedcontainers.SortedList")
    C.ext("SortedList.__getitem__", model=lambda I, env, a, k: VTuple([VReal(z3.Real(I.fresh_name("sched_t"))), NONE]),
          trusted_reason="sortedcontainers.SortedList")
    C.ext("SortedList.__len__", model=lambda I, env, a, k: VInt(z3.Int("n_scheduled")),
          trusted_reason="sortedcontainers.SortedList")
    C.cls("ClockBase", fields={})
    C.ext("ClockBase.get_time", model=lambda I, env, a, k: VReal(z3.Real(I.fresh_name("now"))), trusted_reason="clock")

    def lights2(I, name):
        n = 1 + I.ctx.fork(common.bound(2, 3))
        return I.new_list([VObj(Obj("PlatformBatchLight", ObjS("PlatformBatchLight", {}), "light%d" % i))
                           for i in range(n)], name)

    def last_state(I, name):
        """per light of the batch: no record, or (brightness, time) - with the invariant G: the recorded brightness is
        what the hardware was told last"""
        lights = I.container(I.force(I.frames[0].env["sequential_lights"]).ref).items
        ents = []
        for l in lights:
            if I.ctx.fork(2):
                b = hw_get(I, l.ref)
                ents.append((l, VTuple([VReal(b), VReal(z3.Real("last_t[%s]" % l.ref.name))])))
        return I.new_dict(ents, name)
    C.cls("PlatformBatchLightSystem", file=BLS, fields=dict(
        dirty_schedule=ObjS("SortedList"), clock=ObjS("ClockBase"), schedule_changed=ObjS("AsyncEvent"),
        update_callback=Fn, max_batch_size=Int, last_state=Init(last_state)))

    def on_cb(I, fn, args, kwargs):
        """update_callback(batch): the hardware is told each (light, brightness, fade) of the batch"""
        for it in I.container(I.force(args[0]).ref).items:
            t = I.force(it)
            l, b = I.force(t.items[0]), I.force(t.items[1])
            hw(I)[l.ref] = b.t if b.tag == "real" else z3.ToReal(b.t)
            emit(I, "hw.update", light=l.ref, brightness=b)
        return NONE
    C.helpers["on_opaque_call"] = on_cb

    def bookkeeping_ok(I):
        """G: for every light of the batch, a last_state record holds the brightness the hardware was told last"""
        this = I.frames[0].env["self"].ref
        ls = I.container(I.force(I.read_field(this, "last_state")).ref)
        out = []
        for k, v in ls.entries:
            v = I.force(v)
            b = I.force(v.items[0])
            out.append((b.t if b.tag == "real" else z3.ToReal(b.t)) == hw_get(I, k.ref if isinstance(k, VObj) else k))
        return VBool(z3.And(*out) if out else z3.BoolVal(True))
    C.helpers["bookkeeping_ok"] = bookkeeping_ok

    def hardware_current(I):
        """every light of the batch that reported a value now has it on the hardware (sent now, or skipped because
        the hardware already had it)"""
        out = []
        for e in events_named(I, "get_fade"):
            out.append(hw_get(I, e.args["light"]) == I.force(e.args["brightness"]).t)
        return VBool(z3.And(*out) if out else z3.BoolVal(True))
    C.helpers["hardware_current"] = hardware_current
    C.trace_helpers = {"hardware_current"}
    C.fn("PlatformBatchLightSystem._send_update_batch",
         params=dict(sequential_lights=Init(lights2), max_fade_tolerance=Int),
         requires=[("max batch size", "self.max_batch_size >= 1")],
         loops={0: LoopSpec(invariant=[], unroll=True)},
         ensures=[("H1: after the batch the hardware has, for every light of the batch, the brightness the light "
                   "reported - a light is skipped only when the hardware already has it", "hardware_current()"),
                  ("G: last_state records what the hardware was told last (this is what makes skipping sound)",
                   "bookkeeping_ok()")],
         modifies=["self.last_state", "self.last_state.**"], raises={}, bounded=B)
    C.assume("the batch light system is checked for batches of 1-2 lights with one fade chunk each; the scheduler and "
             "sender tasks (_schedule_updates, _send_updates) are not under contract")
    C.only_verify = ["PlatformBatchLightSystem._send_update_batch"]
    # a light on a coil (software-faded platform): every brightness step is passed on to the driver (C08's contract on
    # DriverLight.set_brightness, restricted) - also the last, small steps of a slow fade
    from . import C08
    c08 = C08.build()
    c08.pid = "C09d"
    c08.replay_pid = "C08"
    c08.only_verify = ["DriverLight.set_brightness"]
    return [C, schedule_update_set(), stack_target_set(), c08, fast_led_set(), brightness_setting_set(), below_set()]


FLED = "mpf/platforms/fast/fast_led.py"


def fast_led_set():
    """FAST's own batched LEDs: a channel ends on its target brightness once the fade is over, and the LED it belongs
    to stays `dirty` (is sent again) while ANY of its channels - possibly owned by different lights - is still fading"""
    C = ContractSet("C09f", "FAST LED channels reach their target; the LED stays dirty while one channel fades")
    C.strings = True
    C.cls("LightPlatformInterface", fields={})
    C.cls("Logger", fields={})
    common.declare_noop(C, "Logger", "warning", "debug", reason="logging")
    C.cls("ClockI", fields=dict(now=Real))
    C.ext("ClockI.get_time", model=lambda I, env, a, k: I.read_field(env["self"].ref, "now"), trusted_reason="loop clock")
    C.cls("ChannelI", fields={})

    def gfb(I, env, a, k):
        b = z3.Real(I.fresh_name("ch_brightness"))
        I.ctx.assume(z3.And(b >= 0, b <= 1))
        done = VBool(z3.Bool(I.fresh_name("ch_done")))
        emit(I, "channel_state", channel=env["self"].ref, done=done)
        return VTuple([VReal(b), VInt(z3.Int(I.fresh_name("ch_fade"))), done])
    C.ext("ChannelI.get_fade_and_brightness", model=gfb,
          trusted_reason="FASTLEDChannel.get_fade_and_brightness (verified below): brightness in 0..1, done flag")

    def channels(I, name):
        out = []
        for i in range(3):
            out.append(I.fresh(ObjS("ChannelI"), "%s[%d]" % (name, i)) if I.ctx.fork(2) else NONE)
        return I.new_list(out, name)
    C.cls("FASTRGBLED", file=FLED, fields=dict(dirty=Bool, channels=Init(channels), hardware_fade_ms=Int,
                                              machine=ObjS("MachineController", clock=ObjS("ClockI")),
                                              log=ObjS("Logger"), number=Str))

    def dirty_iff_fading(I):
        this = I.frames[0].env["self"].ref
        evs = events_named(I, "channel_state")
        anyf = z3.Or([z3.Not(I.truth(e.args["done"])) for e in evs] + [z3.BoolVal(False)])
        return VBool(I.truth(I.read_field(this, "dirty")) == anyf)
    C.helpers["dirty_iff_a_channel_fades"] = dirty_iff_fading
    C.trace_helpers = {"dirty_iff_a_channel_fades"}
    C.fn("FASTRGBLED.current_color", is_property=True, result=Str,
         loops={0: LoopSpec(invariant=[], unroll=True)},
         ensures=[("FL1: after the LED's colour has been computed it is marked dirty (will be computed and sent again) "
                   "exactly when at least one of its channels has not finished its fade - whichever channel that is",
                   "dirty_iff_a_channel_fades()")],
         modifies=["self.dirty"], raises={}, no_inv=True)
    C.cls("LedI", fields=dict(hardware_fade_ms=Int, dirty=Bool, log=ObjS("Logger"), number=Str))
    C.cls("FASTLEDChannel", file=FLED, bases=["LightPlatformInterface"], fields=dict(
        led=ObjS("LedI"), channel=Int, _current_fade=TupleS(Real, Real, Real, Real), _last_brightness=Opt(Real)))
    C.fn("FASTLEDChannel.set_fade",
         params=dict(start_brightness=Real, start_time=Real, target_brightness=Real, target_time=Real),
         ensures=[("FL2: a new command is stored, invalidates the cached final brightness and marks the LED dirty",
                   "self._current_fade == (start_brightness, start_time, target_brightness, target_time) and "
                   "self._last_brightness is None and self.led.dirty")],
         modifies=["self._current_fade", "self._last_brightness", "self.led.dirty"], raises={})
    C.fn("FASTLEDChannel.get_fade_and_brightness", params=dict(current_time=Real),
         requires=[("brightness values lie in 0..1 and a fade starts before it ends",
                    "0 <= self._current_fade[0] <= 1 and 0 <= self._current_fade[2] <= 1 and "
                    "(self._current_fade[3] <= 0 or self._current_fade[1] < self._current_fade[3]) and "
                    "self.led.hardware_fade_ms >= 0 and current_time >= 0"),
                   ("a cached final brightness is the target of the current command",
                    "self._last_brightness is None or self._last_brightness == self._current_fade[2]")],
         ensures=[("FL3: once the fade is over (or there is none) the channel reports EXACTLY its target brightness and "
                   "that it is done", "implies(self._current_fade[3] <= current_time, result[0] == "
                                      "self._current_fade[2] and result[2])"),
                  ("FL4: the reported brightness is never negative", "result[0] >= 0")],
         modifies=["self._last_brightness"], raises={})
    return C


LCTRL = "mpf/core/light_controller.py"


def brightness_setting_set():
    """the global brightness setting: every change of machine.brightness reaches the lights - the one-shot subscription
    is renewed on EVERY notification, also when the value did not change"""
    C = ContractSet("C09b", "brightness setting stays subscribed")
    C.strings = False
    C.cls("MpfController", fields={})
    C.exc("CancelledError", "BaseException")
    C.globals["asyncio"] = VFn("module", name="asyncio")
    C.globals["asyncio.CancelledError"] = VCls("CancelledError")
    C.cls("FutureI", fields=dict(cancelled_=Bool))

    def fut_result(I, env, a, k):
        if I.ctx.branch(I.truth(I.read_field(env["self"].ref, "cancelled_"))):
            I.raise_("CancelledError")
        return NONE
    C.ext("FutureI.result", model=fut_result, trusted_reason="asyncio.Future.result (A-ASYNCIO)")
    C.ext("FutureI.add_done_callback",
          model=lambda I, env, a, k: (emit(I, "subscribed", fut=env["self"].ref, cb=a[0]), NONE)[1],
          trusted_reason="asyncio.Future.add_done_callback (A-ASYNCIO): one-shot notification")
    C.cls("TemplateI", fields={})

    def eval_sub(I, env, a, k):
        f = I.fresh(ObjS("FutureI"), I.fresh_name("subscription"))
        v = VReal(z3.Real(I.fresh_name("brightness_now")))
        emit(I, "evaluated", value=v, fut=f.ref)
        return VTuple([v, f])
    C.ext("TemplateI.evaluate_and_subscribe", model=eval_sub,
          trusted_reason="BaseTemplate.evaluate_and_subscribe (C16): current value + a future completed on the next "
                         "change of a variable it read")
    C.cls("LightController", file=LCTRL, bases=["MpfController"], fields=dict(
        brightness_factor=Real, _brightness_template=ObjS("TemplateI"),
        machine=ObjS("MachineController", is_shutting_down=Bool)))

    def resubscribed(I):
        ev = events_named(I, "evaluated")
        sub = events_named(I, "subscribed")
        if len(ev) != 1 or len(sub) != 1 or sub[0].args["fut"] is not ev[0].args["fut"]:
            return VBool(False)
        this = I.frames[0].env["self"].ref
        cb = I.force(sub[0].args["cb"])
        ok = cb.tag == "fn" and cb.kind == "bound" and cb.name == "_update_brightness" and cb.obj is this
        return VBool(z3.And(z3.BoolVal(bool(ok)), I.eq(I.read_field(this, "brightness_factor"), ev[0].args["value"])))
    C.helpers["resubscribed_with_current_value"] = resubscribed
    C.helpers["n_subscribed"] = lambda I: VInt(len(events_named(I, "subscribed")))
    C.trace_helpers = {"resubscribed_with_current_value", "n_subscribed"}
    C.fn("LightController._update_brightness", params=dict(future=Opt(ObjS("FutureI"))),
         ensures=[("LB1: whenever the brightness notification fires (and MPF is not shutting down, the subscription was not "
                   "cancelled) the factor is re-read and the one-shot subscription is renewed - also when the value is "
                   "the same as before - so that the NEXT change of the setting still reaches the lights",
                   "implies(not self.machine.is_shutting_down and (future is None or not future.cancelled_), "
                   "resubscribed_with_current_value())"),
                  ("otherwise nothing is subscribed", "implies(self.machine.is_shutting_down or (future is not None and "
                                                      "future.cancelled_), n_subscribed() == 0)")],
         modifies=["self.brightness_factor"], raises={})
    return C


def schedule_update_set():
    """Light._schedule_update: what every hardware channel is told, as a function of the (corrected) start and target
    colour and the RGBW style.  Spec functions from the code's own comments: a colour channel shows its component
    (minus the common white part for duck_rgb; nothing for a shade of white with white_only), the white channel shows
    the common part (only shades of white with white_only)."""
    C = ContractSet("C09", "Light._schedule_update: channel brightness from the target colour")
    C.strings = False
    C.cls("SystemWideDevice", fields={})
    C.cls("DevicePositionMixin", fields={})
    C.cls("ColorV", fields=dict(red=Int, green=Int, blue=Int))
    C.exc("ColorException", "Exception")
    CV = ObjS("ColorV", red=Int, green=Int, blue=Int)

    def fresh_color(I, nm):
        c = I.fresh(CV, I.fresh_name(nm))
        for f in ("red", "green", "blue"):
            t = I.force(I.read_field(c.ref, f)).t
            I.ctx.assume(z3.And(t >= 0, t <= 255))
        return c

    def target_of_stack(I, env, a, k):
        """(start_color, start_time, target_color, target_time) of the stack (C09 main set: stack invariants); the two
        colours may be the same object (no fade) or different ones"""
        sc = fresh_color(I, "start_color")
        tc = sc if I.ctx.fork(2) == 0 else fresh_color(I, "target_color")
        emit(I, "stack_target", start=sc, target=tc)
        return VTuple([sc, VReal(z3.Real("start_time")), tc, VReal(z3.Real("target_time"))])
    C.cls("ChannelDriver", fields=dict(channel=Str))

    def drv_set_fade(I, env, a, k):
        emit(I, "set_fade", driver=env["self"].ref, start_b=a[0], start_t=a[1], target_b=a[2], target_t=a[3])
        return NONE
    C.ext("ChannelDriver.set_fade", model=drv_set_fade, trusted_reason="platform light channel (back ends: main set)")
    C.cls("LightsPlatform", fields={})
    C.ext("LightsPlatform.light_sync", model=common.noop, trusted_reason="platform sync")

    def drivers(I, name):
        """channels of the light: RGB, RGBW, or a single white channel"""
        kinds = (("red", "green", "blue"), ("red", "green", "blue", "white"), ("white",))[I.ctx.fork(3)]
        ents = []
        for ch in kinds:
            d = VObj(Obj("ChannelDriver", ObjS("ChannelDriver", {}), "driver_" + ch))
            ents.append((ch, I.new_list([d], "%s[%s]" % (name, ch))))
        return I.new_dict(ents, name)

    def style(I, name):
        return (VStr("duck_rgb"), VStr("white_only"), VStr("min_rgb"), NONE)[I.ctx.fork(4)]
    C.cls("ClockBase", fields=dict(now=Real))
    C.ext("ClockBase.get_time", model=lambda I, env, a, k: I.read_field(env["self"].ref, "now"), trusted_reason="loop clock")
    C.cls("Light", file=LIGHT, bases=["SystemWideDevice", "DevicePositionMixin"], fields=dict(
        stack=Opaque("Stack"), _last_fade_target=Const(None), hw_drivers=Init(drivers), _rbgw_style=Init(style),
        platforms=Init(lambda I, name: I.new_list([], name)),
        machine=ObjS("MachineController", clock=ObjS("ClockBase"))))
    C.ext("Light._get_color_and_target_time", model=target_of_stack,
          trusted_reason="colour / fade target of the stack (recursive interpolation; stack contracts: main set)")
    # brightness and colour correction: identity here (they map a colour to a colour; applied to start and target alike)
    C.ext("Light.gamma_correct", model=lambda I, env, a, k: a[0], trusted_reason="brightness correction (pure colour map)")
    C.ext("Light.color_correct", model=lambda I, env, a, k: a[0], trusted_reason="colour correction profile (pure colour map)")
    C.globals["getattr"] = VFn("model", model=lambda I, a, k: I.read_field(I.force(a[0]).ref, I.pyconst(I.force(a[1]))))

    def chan(I, color, ch, st):
        r, g, b = (I.force(I.read_field(color.ref, f)).t for f in ("red", "green", "blue"))
        mn = z3.If(r <= g, z3.If(r <= b, r, b), z3.If(g <= b, g, b))
        white = z3.And(r == g, g == b)
        if ch == "white":
            v = z3.If(white, r, 0) if st == "white_only" else mn
        else:
            c = {"red": r, "green": g, "blue": b}[ch]
            if st == "duck_rgb":
                v = c - mn
            elif st == "white_only":
                v = z3.If(white, 0, c)
            else:
                v = c
        return z3.ToReal(v) / 255.0

    def channels_ok(I):
        """every channel of the light gets exactly one set_fade whose start / target brightness is that channel's share
        of the START / TARGET colour respectively, with the stack's start and target times"""
        this = I.frames[0].env["self"].ref
        st = I.pyconst(I.force(I.read_field(this, "_rbgw_style")))
        tgt = [e for e in events_named(I, "stack_target")]
        if len(tgt) != 1:
            return VBool(False)
        sc, tc = I.force(tgt[0].args["start"]), I.force(tgt[0].args["target"])
        drv = I.container(I.force(I.read_field(this, "hw_drivers")).ref).entries
        evs = events_named(I, "set_fade")
        if len(evs) != len(drv):
            return VBool(False)
        conj = []
        for (ch, lst), e in zip(drv, evs):
            d = I.force(I.container(I.force(lst).ref).items[0])
            if e.args["driver"] is not d.ref:
                return VBool(False)
            sb, tb = I.force(e.args["start_b"]), I.force(e.args["target_b"])
            sbt = sb.t if sb.tag == "real" else z3.ToReal(sb.t)
            tbt = tb.t if tb.tag == "real" else z3.ToReal(tb.t)
            conj += [sbt == chan(I, sc, ch, st), tbt == chan(I, tc, ch, st)]
        return VBool(z3.And(*conj))
    C.helpers["channels_ok"] = channels_ok
    C.trace_helpers = {"channels_ok"}
    C.fn("Light._schedule_update", loops={0: LoopSpec(invariant=[], unroll=True), 1: LoopSpec(invariant=[], unroll=True),
                                            2: LoopSpec(invariant=[], unroll=True)},
         ensures=[("U1: every hardware channel is told the share of the corrected TARGET colour that belongs to it (and "
                   "starts from the share of the start colour), for RGB, RGBW and white-only lights and every RGBW "
                   "style - so once the fade has finished the channels show the logical colour", "channels_ok()")],
         modifies=["self._last_fade_target"], raises={},
         bounded="BOUNDED: one driver per channel; first update of the light (no remembered fade target)")
    C.assume("brightness / colour correction are applied to start and target colour alike and are modelled as the "
             "identity; the skip of unchanged fade targets (_last_fade_target) is not covered (first update only)")
    C.only_verify = ["Light._schedule_update"]
    return C


def below_set():
    """Light.get_color_below: the colour a new command fades in FROM is the colour of the stack beneath it in the stack's own
    order (priority first, key second) - not of some other layer, and not black while a lower layer exists"""
    C = ContractSet("C09g", "the colour beneath a stack position")
    C.strings = False
    NL = 3
    C.cls("SystemWideDevice", fields={})
    C.cls("DevicePositionMixin", fields={})
    C.cls("ColorV", fields={})
    C.cls("LightStackEntry", fields=dict(priority=Int, key=Int))

    def stack(I, name):
        ents = [I.fresh(ObjS("LightStackEntry"), "%s[%d]" % (name, i)) for i in range(I.ctx.fork(NL + 1))]
        # S1 (proved for every stack operation in the main set): sorted by (priority, key), highest first, keys unique
        for a, b in zip(ents, ents[1:]):
            pa, pb = I.force(I.read_field(a.ref, "priority")).t, I.force(I.read_field(b.ref, "priority")).t
            ka, kb = I.force(I.read_field(a.ref, "key")).t, I.force(I.read_field(b.ref, "key")).t
            I.ctx.assume(z3.Or(pa > pb, z3.And(pa == pb, kb < ka)))
        I.__dict__["c09_below"] = ents
        return I.new_list(ents, name)

    def color_and_fade(I, env, a, k):
        items = [I.force(x).ref for x in I.container(I.force(a[0]).ref).items]
        emit(I, "color_of", items=items)
        return VTuple([I.fresh(ObjS("ColorV"), I.fresh_name("color")), VInt(0), VBool(True)])
    C.cls("Light", file=LIGHT, bases=["SystemWideDevice", "DevicePositionMixin"], check_bases=False,
          fields=dict(stack=Init(stack), _off_color=ObjS("ColorV")))
    C.ext("Light._get_color_and_fade", model=color_and_fade,
          trusted_reason="Light._get_color_and_fade(stack, max_fade): colour of the given layers (C09 stack target set)")

    def from_beneath(I, priority, key):
        ents = [e.ref for e in I.__dict__.get("c09_below", [])]
        evs = events_named(I, "color_of")
        p, k = I.force(priority).t, I.force(key).t
        if not ents:
            return VBool(len(evs) == 0 and I.force(I.result).ref is I.force(I.read_field(I.frames[0].env["self"].ref,
                                                                                          "_off_color")).ref)
        if len(evs) != 1:
            return VBool(False)
        got = evs[0].args["items"]

        def at_or_below(e):
            ep, ek = I.force(I.read_field(e, "priority")).t, I.force(I.read_field(e, "key")).t
            return z3.Or(ep < p, z3.And(ep == p, z3.Or(ek < k, ek == k)))
        cases = []
        for i in range(len(ents) + 1):
            cond = z3.And([z3.Not(at_or_below(e)) for e in ents[:i]] + ([at_or_below(ents[i])] if i < len(ents) else []))
            want = ents[i:]
            cases.append(z3.And(cond, z3.BoolVal(len(got) == len(want) and all(x is y for x, y in zip(got, want)))))
        return VBool(z3.Or(cases))
    C.helpers["from_beneath"] = from_beneath
    C.trace_helpers = {"from_beneath"}
    C.finite_checks.append(common.native_demo_check(
        "c09_fade_in_over_lower_priority_greater_key.py",
        "a fade-in over a lower-priority layer whose key sorts after the new key starts from that layer's colour"))
    C.assume("A-KEYORDER: get_color_below only compares keys (<=, ==); keys are modelled as integers with the same order")
    C.fn("Light.get_color_below", params=dict(priority=Int, key=Int),
         loops={0: LoopSpec(invariant=[], unroll=True)},
         ensures=[("GB1: the colour beneath (priority, key) is the colour of exactly the layers at or below that position in "
                   "the stack's order - priority first, key second: a lower-priority layer counts whatever its key is (a "
                   "fade-in over 'z_base' by 'a_show' starts from z_base's colour, not from black)",
                   "from_beneath(priority, key)")],
         modifies=[], raises={}, bounded="BOUNDED: stacks of at most %d layers" % NL)
    return C


def stack_target_set():
    """Light._get_color_and_target_time: the colour (and fade) the hardware is told is the one of the top-most layer
    that is not transparent; a settled stack yields exactly the destination colour of that layer (or off)."""
    C = ContractSet("C09", "Light._get_color_and_target_time: colour of the stack")
    C.strings = False
    NL = common.bound(2, 3)
    C.cls("SystemWideDevice", fields={})
    C.cls("DevicePositionMixin", fields={})
    C.cls("ColorV", fields=dict(red=Int, green=Int, blue=Int))
    CV = ObjS("ColorV", red=Int, green=Int, blue=Int)
    C.cls("LightStackEntry", fields=dict(priority=Int, key=Str, start_time=Real, start_color=CV, dest_time=Real,
                                         dest_color=Opt(CV)))

    def stack(I, name):
        ents = []
        for i in range(I.ctx.fork(NL + 1)):
            e = I.fresh(ObjS("LightStackEntry"), "%s[%d]" % (name, i))
            dt = I.force(I.read_field(e.ref, "dest_time")).t
            st = I.force(I.read_field(e.ref, "start_time")).t
            # an entry either has no fade (dest_time 0) or fades from start_time to a later dest_time (stack invariant)
            I.ctx.assume(z3.Or(dt == 0, z3.And(st > 0, dt > st)))
            ents.append(e)
        I.__dict__["c09_stack"] = ents
        return I.new_list(ents, name)
    C.cls("RGBColorCls", fields={})
    C.globals["RGBColor"] = VCls("RGBColor")

    def blend(I, a, k):
        c = I.fresh(CV, I.fresh_name("blend"))
        emit(I, "blend", start=a[0], end=a[1], ratio=a[2])
        return c
    C.globals["RGBColor.blend"] = VFn("model", model=blend)
    C.cls("Light", file=LIGHT, bases=["SystemWideDevice", "DevicePositionMixin"], fields=dict(_off_color=CV))

    def entries(I):
        return I.__dict__.get("c09_stack", [])

    def fld(I, e, f):
        return I.read_field(e.ref, f)

    def settled(I):
        """no layer is fading"""
        return VBool(z3.And([I.force(fld(I, e, "dest_time")).t == 0 for e in entries(I)] + [z3.BoolVal(True)]))
    C.helpers["settled"] = settled

    def is_color(I, v, target):
        """v is the colour object `target` (identity of the modelled colour objects, or None)"""
        v = I.force(v) if not isinstance(v, VUnion) else v
        alts = v.alts if isinstance(v, VUnion) else ((z3.BoolVal(True), v),)
        tv = I.force(target) if not isinstance(target, VUnion) else target
        talts = tv.alts if isinstance(tv, VUnion) else ((z3.BoolVal(True), tv),)
        cs = []
        for g, a_ in alts:
            for g2, b_ in talts:
                same = (a_.tag == "obj" and b_.tag == "obj" and a_.ref is b_.ref) or (a_.tag == "none" and b_.tag == "none")
                cs.append(z3.And(g, g2, z3.BoolVal(bool(same))))
        return z3.Or(cs + [z3.BoolVal(False)])

    def top_opaque_dest(I, result_color):
        """result_color is the destination colour of the first layer that is not transparent - off if there is none"""
        this = I.frames[0].env["self"].ref
        off = I.read_field(this, "_off_color")
        acc = is_color(I, result_color, off)
        for e in reversed(entries(I)):
            dc = fld(I, e, "dest_color")
            transparent = I.is_none(dc)
            acc = z3.If(transparent, acc, is_color(I, result_color, dc))
        return VBool(acc)
    C.helpers["top_opaque_dest"] = top_opaque_dest

    def top_is_colour_fade(I):
        es = entries(I)
        if not es:
            return VBool(False)
        return VBool(z3.And(I.force(fld(I, es[0], "dest_time")).t != 0, z3.Not(I.is_none(fld(I, es[0], "dest_color")))))
    C.helpers["top_is_colour_fade"] = top_is_colour_fade

    def is_top_fade(I, result):
        e = entries(I)[0]
        r = I.force(result).items
        return VBool(z3.And(is_color(I, r[0], fld(I, e, "start_color")), I.eq(r[1], fld(I, e, "start_time")),
                            is_color(I, r[2], fld(I, e, "dest_color")), I.eq(r[3], fld(I, e, "dest_time"))))
    C.helpers["is_top_fade"] = is_top_fade
    C.fn("Light._get_color_and_target_time", params=dict(stack=Init(stack)),
         ensures=[("T1: a settled stack (no layer fading) shows exactly the destination colour of its top-most layer "
                   "that is not transparent - off if there is none - and no fade is reported",
                   "implies(settled(), top_opaque_dest(result[2]) and top_opaque_dest(result[0]) and result[1] == -1 "
                   "and result[3] == -1)"),
                  ("T2: a top layer that fades to a colour is reported as that fade: start colour and time, destination "
                   "colour and time of THAT layer", "implies(top_is_colour_fade(), is_top_fade(result))")],
         modifies=[], raises={}, inline_calls=True,
         bounded="BOUNDED: stacks of at most %d layers (recursion executed in line)" % NL)
    C.cls("ClockBase", fields=dict(now=Real))
    C.ext("ClockBase.get_time", model=lambda I, env, a, k: I.read_field(env["self"].ref, "now"), trusted_reason="loop clock")
    C.classes["Light"].fields["machine"] = ObjS("MachineController", clock=ObjS("ClockBase"))

    def all_fades_over(I, now):
        t = I.num(now)
        nt = t[1] if t[0] == "real" else z3.ToReal(t[1])
        return VBool(z3.And([z3.Or(I.force(fld(I, e, "dest_time")).t == 0, nt >= I.force(fld(I, e, "dest_time")).t)
                             for e in entries(I)] + [z3.BoolVal(True)]))
    C.helpers["all_fades_over"] = all_fades_over
    C.fn("Light._get_color_and_fade", params=dict(stack=Init(stack), max_fade_ms=Int, current_time=Opt(Real)),
         requires=[("the look-ahead is not negative", "max_fade_ms >= 0")],
         lets={"now": "current_time if current_time is not None else self.machine.clock.now"},
         ensures=[("F1: once every fade of the stack is over (or there never was one) the light shows exactly the "
                   "destination colour of the top-most layer that is not transparent - off if there is none - and "
                   "reports that nothing more is to come (no further fade, done)",
                   "implies(all_fades_over(now) and (current_time is None or current_time == self.machine.clock.now), "
                   "top_opaque_dest(result[0]) and result[1] == -1 and result[2])")],
         modifies=[], raises={}, inline_calls=True,
         bounded="BOUNDED: stacks of at most %d layers (recursion executed in line)" % NL)
    C.only_verify = ["Light._get_color_and_target_time", "Light._get_color_and_fade"]
    C.assume("stack entries either have no fade (dest_time 0) or 0 < start_time < dest_time (established by "
             "Light._add_to_stack / color(): main set); fade-out interpolation (RGBColor.blend) is C09's blend contract")
    return C
