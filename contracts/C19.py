"""C19 - BCP messages round-trip exactly and reassemble from any chunking.

Round trip, per parameter: for every command c, key k and value v (str / int / float / bool / None),
decode(encode(c, k=v)) = (c, {k: v}) with the same type.  Proved as
   encode : {true} -> {wire = urlunparse(c, quote(k) '=' enc(v))}            (verified on the real code)
   lemma  : wire form + library axioms  =>  decode's precondition              (pure VC)
   decode : {query parses to (k, unquote(enc(v)))} -> {result = (c, {k: v})}   (verified on the real code)
The urllib / json functions are uninterpreted with the axioms listed in A-LIB below.
One-parameter messages (the loops are per parameter and carry no state between parameters).
"""
import z3

from pyvc.contract import ContractSet, LoopSpec
from pyvc.vals import *       # noqa
from pyvc.interp import MISSING
from pyvc.ctx import Unsupported
from . import common
from .common import emit, events_named

BCP = "mpf/core/bcp/bcp_socket_client.py"
S = z3.StringSort()
QUOTE = z3.Function("quote", S, S)
UNQUOTE = z3.Function("unquote", S, S)
PATH = z3.Function("urlsplit_path", S, S)
QUERY = z3.Function("urlsplit_query", S, S)
UNPARSE = z3.Function("urlunparse", S, S, S)
PQK = z3.Function("parse_qs_key", S, S)
PQV = z3.Function("parse_qs_value", S, S)
STRF = z3.Function("py_str_float", z3.RealSort(), S)
STRI = z3.Function("py_str_int", z3.IntSort(), S)
PYINT = z3.Function("py_int", S, z3.IntSort())
PYINT_OK = z3.Function("py_int_ok", S, z3.BoolSort())
PYFLOAT = z3.Function("py_float", S, z3.RealSort())
PYFLOAT_OK = z3.Function("py_float_ok", S, z3.BoolSort())
LOWER = z3.Function("py_str_lower", S, S)

VAL = Union(NoneT, Bool, Int, Real, Str)


def stri(t):
    return z3.If(t >= 0, z3.IntToStr(t), STRI(t))


def build():
    C = ContractSet("C19", "BCP messages round-trip exactly and reassemble from any chunking")
    C.strings = True
    C.finite_checks.append(common.native_demo_check(
        'c19_bytes_marker_in_json_value.py',
        "a string parameter that contains '&bytes=3' in a JSON-mode message does not break the line framing"))

    # ---- library models (A-LIB)
    C.cls("SplitResult", fields={})

    def m_urlsplit(I, args, kwargs):
        s = I.force(args[0]).t
        o = Obj("SplitResult", ObjS("SplitResult", {}), I.fresh_name("split"))
        o.fresh = True
        I.heap.data[(o, "path")] = VStr(PATH(s))
        I.heap.data[(o, "query")] = VStr(QUERY(s))
        return VObj(o)

    def m_parse_qs(I, args, kwargs):
        q = I.force(args[0]).t
        if I.ctx.branch(q == z3.StringVal("")):
            return I.new_dict(())
        return I.new_dict(((VStr(PQK(q)), I.new_list([VStr(PQV(q))])),))

    def m_unquote(I, args, kwargs):
        return VStr(UNQUOTE(I.force(args[0]).t))

    def m_quote(I, args, kwargs):
        return VStr(QUOTE(I.force(args[0]).t))

    def m_urlunparse(I, args, kwargs):
        t = I.force(args[0])
        return VStr(UNPARSE(I.force(t.items[2]).t, I.force(t.items[4]).t))

    def m_json(I, args, kwargs):
        return VOpaque("Json", z3.Const(I.fresh_name("json"), usort("Json")))
    for nm, m in (("urlsplit", m_urlsplit), ("parse_qs", m_parse_qs), ("unquote", m_unquote), ("quote", m_quote),
                  ("urlunparse", m_urlunparse)):
        C.globals[nm] = VFn("model", model=m)
    C.globals["json"] = VFn("module", name="json")
    C.globals["json.loads"] = VFn("model", model=m_json)
    C.globals["json.dumps"] = VFn("model", model=m_json)
    C.globals["MpfJSONEncoder"] = VCls("MpfJSONEncoder")

    # ---- spec helpers
    def wire_unquoted(I, v):
        """the parameter text after parse_qs has unquoted it, for a value encoded by the statement's scheme"""
        v = I.force(v)
        if v.tag == "str":
            return VStr(v.t)
        if v.tag == "bool":
            return VStr(z3.If(v.t, z3.StringVal("bool:True"), z3.StringVal("bool:False")))
        if v.tag == "int":
            return VStr(z3.Concat(z3.StringVal("int:"), stri(v.t)))
        if v.tag == "real":
            return VStr(z3.Concat(z3.StringVal("float:"), STRF(v.t)))
        return VStr("NoneType:")
    C.helpers["wire_unquoted"] = wire_unquoted

    def wire_value(I, v):
        """enc(v): the parameter text on the wire"""
        v = I.force(v)
        if v.tag == "str":
            return VStr(QUOTE(v.t))
        if v.tag == "bool":
            return VStr(z3.Concat(z3.StringVal("bool:"), QUOTE(z3.If(v.t, z3.StringVal("True"), z3.StringVal("False")))))
        if v.tag == "int":
            return VStr(z3.Concat(z3.StringVal("int:"), QUOTE(stri(v.t))))
        if v.tag == "real":
            return VStr(z3.Concat(z3.StringVal("float:"), QUOTE(STRF(v.t))))
        return VStr("NoneType:")
    C.helpers["wire_value"] = wire_value
    C.helpers["quote_"] = lambda I, s: VStr(QUOTE(I.force(s).t))
    C.helpers["unparse"] = lambda I, c, q: VStr(UNPARSE(I.force(c).t, I.force(q).t))
    C.helpers["path_of"] = lambda I, s: VStr(PATH(I.force(s).t))
    C.helpers["query_of"] = lambda I, s: VStr(QUERY(I.force(s).t))
    C.helpers["pq_key"] = lambda I, q: VStr(PQK(I.force(q).t))
    C.helpers["pq_val"] = lambda I, q: VStr(PQV(I.force(q).t))

    def same_type_and_value(I, a, b):
        a, b = I.force(a), I.force(b)
        if a.tag != b.tag:
            return VBool(False)
        return VBool(I.eq(a, b))
    C.helpers["same"] = same_type_and_value

    def lib_axioms(I, v):
        """instances of the library axioms needed for this value: int(str(i)) = i, float(str(f)) = f,
        'bool:True'.lower() = 'bool:true', ..., unquote(s) = s for text without '%'"""
        v = I.force(v)
        ax = [LOWER(z3.StringVal("bool:True")) == z3.StringVal("bool:true"),
              LOWER(z3.StringVal("bool:False")) == z3.StringVal("bool:false"),
              LOWER(z3.StringVal("NoneType:")) == z3.StringVal("nonetype:")]
        if v.tag == "int":
            s = stri(v.t)
            ax += [PYINT(s) == v.t, PYINT_OK(s),
                   LOWER(z3.Concat(z3.StringVal("int:"), s)) != z3.StringVal("bool:true")]
        if v.tag == "real":
            s = STRF(v.t)
            ax += [PYFLOAT(s) == v.t, PYFLOAT_OK(s)]
        if v.tag == "str":
            ax += [z3.Implies(z3.Not(z3.Contains(v.t, z3.StringVal("%"))), UNQUOTE(v.t) == v.t)]
        return VBool(z3.And(ax))
    C.helpers["lib_axioms"] = lib_axioms

    def typelike(I, v):
        """a str value whose text looks like a typed wire value, or contains a percent sign"""
        v = I.force(v)
        if v.tag != "str":
            return VBool(False)
        t = v.t
        return VBool(z3.Or(z3.PrefixOf(z3.StringVal("int:"), t), z3.PrefixOf(z3.StringVal("float:"), t),
                           LOWER(t) == z3.StringVal("bool:true"), LOWER(t) == z3.StringVal("bool:false"),
                           t == z3.StringVal("NoneType:"), z3.Contains(t, z3.StringVal("%"))))
    C.helpers["typelike"] = typelike

    def result_value(I, result, key):
        d = I.force(I.force(result).items[1])
        ents = I.container(d.ref).entries
        if len(ents) != 1:
            return NONE
        return ents[0][1]

    def result_key(I, result):
        d = I.force(I.force(result).items[1])
        ents = I.container(d.ref).entries
        if len(ents) != 1:
            return NONE
        k = ents[0][0]
        return k if isinstance(k, Val) else I.const(k)
    C.helpers["result_value"] = result_value
    C.helpers["result_key"] = result_key
    C.helpers["n_params"] = lambda I, result: VInt(len(I.container(I.force(I.force(result).items[1]).ref).entries))

    # ---- decode
    C.fn("decode_command_string", file=BCP, params=dict(bcp_string=Str),
         ghosts=dict(g_key=Str, g_val=VAL),
         requires=[("not the JSON form", "query_of(bcp_string)[0:5] != 'json='"),
                   ("the string is the wire form of one parameter g_key = g_val: parse_qs yields the unquoted key",
                    "pq_key(query_of(bcp_string)) == g_key"),
                   ("... and the unquoted encoded value", "pq_val(query_of(bcp_string)) == wire_unquoted(g_val)"),
                   ("the query is not empty", "query_of(bcp_string) != ''")],
         defs=["lib_axioms(g_val)"],
         ensures=[("the command is returned unchanged", "result[0] == path_of(bcp_string)"),
                  ("exactly the parameter that was sent", "n_params(result) == 1 and result_key(result) == g_key"),
                  ("with the same value and the same type", "same(result_value(result, g_key), g_val)")],
         raises={}, modifies=[], fresh_result=True,
         replay_seeds={})

    # ---- encode (one keyword parameter)
    def one_kwarg(I, name):
        return I.new_dict(((I.frames[0].env["g_key"], I.frames[0].env["g_val"]),))
    C.fn("encode_command_string", file=BCP, params=dict(bcp_command=Str, kwargs=Init(one_kwarg)),
         ghosts=dict(g_key=Str, g_val=VAL), result=Str,
         ensures=[("a single line: command ? quote(key) = enc(value)",
                   "result == unparse(bcp_command, quote_(g_key) + '=' + wire_value(g_val))")],
         raises={}, modifies=[])

    # ---- framing: read_message (A-ASYNCIO: StreamReader.readline/readexactly define the byte stream semantics,
    #      independent of how the bytes arrived)
    C.exc("BrokenPipeError", "OSError")
    C.exc("IncompleteReadError", "Exception")
    C.cls("StreamReader", fields=dict(stream=Bytes))
    NL = z3.StringVal("\n")

    def readline(I, env, args, kwargs):
        r = env["self"].ref
        st = I.force(I.read_field(r, "stream")).t
        idx = z3.IndexOf(st, NL, 0)
        if I.ctx.branch(idx < 0):
            # EOF before a newline: whatever is left (possibly nothing) is returned
            I.write_field(r, "stream", VStr(z3.StringVal(""), True))
            common.emit(I, "readline", data=VStr(st, True))
            return VStr(st, True)
        line = z3.SubString(st, 0, idx + 1)
        I.write_field(r, "stream", VStr(z3.SubString(st, idx + 1, z3.Length(st) - idx - 1), True))
        common.emit(I, "readline", data=VStr(line, True))
        return VStr(line, True)

    def readexactly(I, env, args, kwargs):
        r = env["self"].ref
        st = I.force(I.read_field(r, "stream")).t
        k, n = I.num(args[0])
        if I.ctx.branch(z3.Or(n < 0, z3.Length(st) < n)):
            I.raise_("IncompleteReadError")
        data = z3.SubString(st, 0, n)
        I.write_field(r, "stream", VStr(z3.SubString(st, n, z3.Length(st) - n), True))
        common.emit(I, "readexactly", n=VInt(n), data=VStr(data, True))
        return VStr(data, True)
    A = "asyncio.StreamReader (A-ASYNCIO): readline returns the next line of the byte stream, readexactly the next n bytes"
    C.ext("StreamReader.readline", model=readline, trusted_reason=A)
    C.ext("StreamReader.readexactly", model=readexactly, trusted_reason=A)

    C.cls("AsyncioBcpClientSocket", file=BCP, fields=dict(_receiver=ObjS("StreamReader")))

    def process_command(I, env, args, kwargs):
        common.emit(I, "process_command", message=args[0], rawbytes=args[1] if len(args) > 1 else NONE)
        return VTuple([VStr(z3.String(I.fresh_name("cmd"))), I.new_dict(())])
    C.ext("AsyncioBcpClientSocket._process_command", model=process_command,
          trusted_reason="decode_command_string(message.decode()) + rawbytes (decode is verified above)")

    def framing_ok(I):
        """the message handed on is the first line up to the byte marker, the payload is exactly the announced
        number of bytes that follow the line, and the stream is left right after them"""
        pc = [e for e in I.cur_trace() if e.name == "process_command"]
        if len(pc) != 1:
            return VBool(False)
        this = I.frames[0].env["self"].ref
        r = I.force(I.read_field(this, "_receiver")).ref
        st0 = I.force(I.read_field(r, "stream", heap=I.old_heap)).t
        st1 = I.force(I.read_field(r, "stream")).t
        idx = z3.IndexOf(st0, NL, 0)
        line = z3.SubString(st0, 0, idx)                    # without the newline
        marker = z3.StringVal("&bytes=")
        mi = z3.IndexOf(line, marker, 0)
        msg = I.force(pc[0].args["message"]).t
        raw = pc[0].args["rawbytes"]
        after_line = z3.SubString(st0, idx + 1, z3.Length(st0) - idx - 1)
        no_payload = z3.And(mi < 0, msg == line, z3.BoolVal(I.force(raw).tag == "none"), st1 == after_line)
        if I.force(raw).tag == "none":
            return VBool(no_payload)
        n = PYINT(z3.SubString(line, mi + 7, z3.Length(line) - mi - 7))
        payload = z3.And(mi >= 0, msg == z3.SubString(line, 0, mi), I.force(raw).t == z3.SubString(after_line, 0, n),
                         st1 == z3.SubString(after_line, n, z3.Length(after_line) - n))
        return VBool(payload)
    C.helpers["framing_ok"] = framing_ok
    C.trace_helpers = {"framing_ok"}
    def read_some(I, env, args, kwargs):
        """StreamReader.read(n): whatever has arrived, at most n bytes, at least one unless the stream ended"""
        r = env["self"].ref
        st = I.force(I.read_field(r, "stream")).t
        kk, n = I.num(args[0])
        ln = z3.Int(I.fresh_name("chunk_len"))
        if I.ctx.branch(z3.Length(st) == 0):
            return VStr(z3.StringVal(""), True)
        I.ctx.assume(z3.And(ln >= 1, ln <= n, ln <= z3.Length(st)))
        I.write_field(r, "stream", VStr(z3.SubString(st, ln, z3.Length(st) - ln), True))
        return VStr(z3.SubString(st, 0, ln), True)
    C.ext("StreamReader.read", model=read_some, trusted_reason=A)
    RM = dict(
        requires=[("a complete line is available", "'\\n' in self._receiver.stream")],
        ensures=[("one command per line; an attached payload is exactly the announced bytes after the line; the "
                  "stream continues right behind it (so messages are dispatched in the order sent)", "framing_ok()")],
        raises={"ValueError": True, "IncompleteReadError": True, "BrokenPipeError": True},
        modifies=["self._receiver.stream"])
    C.fn("AsyncioBcpClientSocket.read_message", **RM)
    C.cls("BaseBcpClient", fields={})
    C.cls("BCPClientSocket", file=BCP, bases=["BaseBcpClient"], fields=dict(_receiver=ObjS("StreamReader"), _debug=Bool))
    C.ext("BCPClientSocket._process_command", model=process_command,
          trusted_reason="decode_command_string(message.decode()) + rawbytes, then dispatch")
    C.fn("BCPClientSocket.read_message", **RM)
    # ---- the round-trip lemma (pure): encode's postcondition + library axioms => decode's precondition
    def lemma(C_):
        rows = []
        c, k = z3.String("c"), z3.String("k")
        cases = {"str": z3.String("v"), "int": z3.Int("i"), "float": z3.Real("f"), "bool": z3.Bool("b"), "None": None}
        for nm, v in cases.items():
            if nm == "str":
                enc, unq = QUOTE(v), v
            elif nm == "int":
                enc, unq = z3.Concat(z3.StringVal("int:"), QUOTE(stri(v))), z3.Concat(z3.StringVal("int:"), stri(v))
            elif nm == "float":
                enc, unq = z3.Concat(z3.StringVal("float:"), QUOTE(STRF(v))), z3.Concat(z3.StringVal("float:"), STRF(v))
            elif nm == "bool":
                tv = z3.If(v, z3.StringVal("True"), z3.StringVal("False"))
                enc, unq = z3.Concat(z3.StringVal("bool:"), QUOTE(tv)), z3.Concat(z3.StringVal("bool:"), tv)
            else:
                enc, unq = z3.StringVal("NoneType:"), z3.StringVal("NoneType:")
            q = z3.Concat(QUOTE(k), z3.StringVal("="), enc)
            wire = UNPARSE(c, q)
            # A-LIB instances for this wire string
            ax = [QUERY(wire) == q, PATH(wire) == c,                      # urlsplit . urlunparse
                  PQK(q) == UNQUOTE(QUOTE(k)), PQV(q) == UNQUOTE(enc),    # parse_qs of a single pair
                  UNQUOTE(QUOTE(k)) == k,                                 # unquote . quote = id
                  UNQUOTE(enc) == unq]                                    # unquote of prefix ++ quote(text)
            goal = z3.And(PQK(QUERY(wire)) == k, PQV(QUERY(wire)) == unq, PATH(wire) == c)
            s = z3.Solver()
            s.set("timeout", 10000)
            s.add(*ax)
            s.add(z3.Not(goal))
            r = s.check()
            rows.append(("lemma[%s]: encode's wire form satisfies decode's precondition" % nm, r == z3.unsat,
                         "z3: %s" % r if r == z3.unsat else "UNDECIDED: z3 %s" % r))
        return rows
    C.finite_checks.append(lemma)

    C.assume("A-LIB (urllib): unquote(quote(s,'')) = s; unquote(p ++ quote(t)) = p ++ t for the literal type "
             "prefixes p; unquote(s) = s when s has no '%'; parse_qs('K=V') = {unquote(K): [unquote(V)]} for a single "
             "pair; urlsplit(urlunparse(('','',c,'',q,''))) has path c and query q (c without ?#: and without "
             "leading/trailing control characters)")
    C.assume("A-LIB (builtins): int(str(i)) = i, float(str(f)) = f (CPython repr round trip), 'bool:True'.lower() = "
             "'bool:true'")
    C.assume("one parameter per message (the encode/decode loops keep no state between parameters); the parameter "
             "name 'json' and nested list/dict values (JSON path, json.loads . json.dumps) are outside")
    return C


BI = "mpf/core/bcp/bcp_interface.py"


def dispatch_set():
    """a decoded message reaches the handler registered for its command with EXACTLY the decoded parameters - the
    byte payload included - whatever the logging settings"""
    C = ContractSet("C19d", "BCP dispatch hands on the decoded parameters unchanged")
    C.strings = False
    C.cls("MpfController", fields={})
    C.cls("BcpClient", fields=dict(name=Str))
    C.cls("Transport", fields={})
    C.ext("Transport.send_to_client", model=lambda I, env, a, k: (emit(I, "send_to_client"), NONE)[1],
          trusted_reason="BCP transport (encode: C19 main set)")

    def deepcopy_model(I, args, kwargs):
        v = I.force(args[0])
        if v.tag == "dict":
            return I.new_dict(tuple(I.container(v.ref).entries), "deepcopy")
        return v
    C.globals["deepcopy"] = VFn("model", model=deepcopy_model)

    def msg_kwargs(I, name):
        ents = [("a", VInt(z3.Int(name + "[a]")))]
        if I.ctx.fork(2) == 1:
            ents.append(("rawbytes", VStr(z3.String(name + "[rawbytes]"), True)))
        I.__dict__["c19_kwargs"] = ents
        return I.new_dict(tuple(ents))
    HANDLER = VOpaque("Fn", z3.Const("bcp_handler", usort("Fn")))
    C.cls("BcpInterface", file=BI, bases=["MpfController"], fields=dict(
        _debug_to_console=Bool, _debug_to_file=Bool,
        bcp_receive_commands=Init(lambda I, n: I.new_dict((("known", HANDLER),))),
        machine=ObjS("MachineController", bcp=ObjS("Bcp", transport=ObjS("Transport")))))
    C.helpers["on_opaque_call"] = lambda I, fn, a, k: NONE

    def handed_on(I, client):
        """the handler was called exactly once with client=<client> and every decoded parameter, value unchanged"""
        evs = events_named(I, "callback")
        if len(evs) != 1:
            return VBool(False)
        e = evs[0]
        kw = dict(e.args["kwargs"])
        want = dict(I.__dict__.get("c19_kwargs", []))
        if sorted(kw) != sorted(list(want) + ["client"]):
            return VBool(False)
        cs = [I.eq(e.args["fn"], HANDLER), I.eq(kw["client"], client)]
        for k_, v_ in want.items():
            got = I.force(kw[k_])
            if got.tag != v_.tag:
                return VBool(False)
            cs.append(I.eq(got, v_))
        return VBool(z3.And(cs))
    C.helpers["handed_on"] = handed_on
    C.helpers["n_callbacks"] = lambda I: VInt(len(events_named(I, "callback")))

    def kwargs_untouched(I):
        kw = I.frames[0].env["kwargs"]
        new = dict(I.container(I.force(kw).ref).entries)
        want = dict(I.__dict__.get("c19_kwargs", []))
        if sorted(new) != sorted(want):
            return VBool(False)
        cs = []
        for k_, v_ in want.items():
            got = I.force(new[k_])
            if got.tag != v_.tag:
                return VBool(False)
            cs.append(I.eq(got, v_))
        return VBool(z3.And(cs + [z3.BoolVal(True)]))
    C.helpers["kwargs_untouched"] = kwargs_untouched
    C.trace_helpers = {"handed_on", "n_callbacks"}
    C.fn("BcpInterface.process_bcp_message",
         params=dict(cmd=Union(Const("known"), Const("unknown_cmd")), kwargs=Init(msg_kwargs), client=ObjS("BcpClient")),
         ensures=[("D1: the handler of a known command gets the decoded parameters exactly as decoded (same names, "
                   "values and types; the byte payload untouched) - with or without debug logging",
                   "implies(cmd == 'known', handed_on(client) and kwargs_untouched())"),
                  ("D2: an unknown command calls no handler", "implies(cmd != 'known', n_callbacks() == 0)")],
         modifies=[], raises={}, skip_frame=True,
         bounded="BOUNDED: one registered command; a message with one scalar parameter and an optional byte payload")
    return C


def payload_set():
    """_process_command of both socket classes: a payload attached to the message is handed on as kwargs['rawbytes'],
    identically - the empty payload included"""
    C = ContractSet("C19p", "BCP payloads are handed on identically")
    C.strings = True
    C.cls("BaseBcpClient", fields={})

    def decode(I, a, k):
        emit(I, "decode", text=a[0])
        return VTuple([VStr(z3.String(I.fresh_name("cmd"))), I.new_dict((("a", VInt(z3.Int(I.fresh_name("dec_a")))),))])
    C.globals["decode_command_string"] = VFn("model", model=decode)
    C.helpers["on_opaque_call"] = lambda I, fn, a, k: NONE

    def payload_kept(I, result, rawbytes):
        r = I.force(result)
        if r.tag != "tuple":
            return VBool(False)
        ents = dict(I.container(I.force(r.items[1]).ref).entries)
        rb = rawbytes
        alts = rb.alts if isinstance(rb, VUnion) else ((z3.BoolVal(True), I.force(rb)),)
        cs = []
        for g, a_ in alts:
            if a_.tag == "none":
                cs.append(z3.Implies(g, z3.BoolVal("rawbytes" not in ents)))
            else:
                cs.append(z3.Implies(g, I.eq(ents["rawbytes"], a_) if "rawbytes" in ents else z3.BoolVal(False)))
        return VBool(z3.And(cs))
    C.helpers["payload_kept"] = payload_kept
    C.cls("AsyncioBcpClientSocket", file=BCP, fields={})
    C.fn("AsyncioBcpClientSocket._process_command", params=dict(message=Bytes, rawbytes=Opt(Bytes)),
         ensures=[("Y1: a message with an attached payload - of any length, also empty - is handed on with exactly that "
                   "payload as 'rawbytes'; a message without one has no such parameter",
                   "payload_kept(result, rawbytes)")],
         modifies=[], raises={}, allow_decorators=["staticmethod"])
    C.cls("BCPClientSocket", file=BCP, bases=["BaseBcpClient"], fields=dict(
        _debug=Bool, _bcp_client_socket_commands=Init(lambda I, n: I.new_dict((
            ("hello", VOpaque("Fn", z3.Const("receive_hello", usort("Fn")))),
            ("goodbye", VOpaque("Fn", z3.Const("receive_goodbye", usort("Fn")))))))))
    C.fn("BCPClientSocket._process_command", params=dict(message=Bytes, rawbytes=Opt(Bytes)),
         ensures=[("Y1 (MPF side): the same for every command that is not handled by the socket itself (hello / goodbye "
                   "return nothing)", "result is None or payload_kept(result, rawbytes)")],
         modifies=[], raises={})
    return C


BT = "mpf/core/bcp/bcp_transport.py"


def order_set():
    """the receive loop of a BCP connection: commands are dispatched in the order sent - a command is handled to
    completion (awaited) before the next one is read; no handler is spawned as a task of its own"""
    C = ContractSet("C19o", "BCP commands are dispatched in the order sent")
    C.strings = False
    C.exc("BrokenPipeError", "OSError")
    C.cls("TransportI", fields={})

    def read_message(I, env, a, k):
        if I.ctx.fork(2) == 1:
            I.raise_("BrokenPipeError")
        emit(I, "read")
        return VTuple([VStr(z3.String(I.fresh_name("cmd"))), I.new_dict(())])
    C.ext("TransportI.read_message", model=read_message, trusted_reason="BCPClientSocket.read_message (framing: main set)")
    C.cls("InterfaceI", fields={})
    C.ext("InterfaceI.process_bcp_message", model=lambda I, env, a, k: (emit(I, "handled", cmd=a[0]), NONE)[1],
          trusted_reason="BcpInterface.process_bcp_message (C19d): a coroutine - its effect happens where it is awaited")
    C.cls("LoopI", fields={})

    def create_task(I, env, a, k):
        emit(I, "spawned")
        return I.fresh(ObjS("TaskI"), I.fresh_name("task"))
    C.cls("TaskI", fields={})
    C.ext("TaskI.add_done_callback", model=common.noop, trusted_reason="asyncio.Task")
    C.ext("LoopI.create_task", model=create_task, trusted_reason="asyncio loop.create_task: runs the coroutine LATER, "
                                                                 "concurrently with its creator")
    C.globals["Util"] = VCls("Util")
    C.globals["Util.raise_exceptions"] = VOpaque("Fn", z3.Const("raise_exceptions", usort("Fn")))
    C.cls("BcpTransportManager", file=BT, fields=dict(
        _machine=ObjS("MachineController", bcp=ObjS("BcpI", interface=ObjS("InterfaceI")),
                      clock=ObjS("ClockI", loop=ObjS("LoopI")))))
    C.ext("BcpTransportManager.unregister_transport", model=lambda I, env, a, k: (emit(I, "unregistered"), NONE)[1],
          trusted_reason="removes the connection from the manager's tables")

    def pass_in_order(I):
        tr = [e.name for e in I.cur_trace() if e.name in ("read", "handled", "spawned")]
        return VBool(tr in (["read", "handled"],))
    C.helpers["read_then_handled"] = pass_in_order
    C.trace_helpers = {"read_then_handled"}
    C.fn("BcpTransportManager._receive_loop", params=dict(transport=ObjS("TransportI")),
         loops_by_text={"True": LoopSpec(invariant=[], modifies=[], body_ensures=[
             ("RO1: each pass reads ONE command and handles it to completion before the next one is read - the handler is "
              "awaited in the loop itself, not spawned as a task that could be overtaken by later commands",
              "read_then_handled()")])},
         modifies=[], raises={})
    return C


def build_extra():
    return [dispatch_set(), payload_set(), order_set()]
