"""C10 - Hardware switch-to-coil rules match the enabled devices exactly.

Ghost: installed(switch, driver) - is a hardware rule installed for this pair?  The devices' switches and coils are
concrete heap objects, so the ghost is a finite map from object pairs to symbolic flags: every pair not mentioned by a
model call is untouched by construction (frame), the flags of the device's own pairs are constrained by its class
invariant.

Assumed contracts of the platform controller (verified functions of core/platform_controller.py are future work):
``set_*_rule`` REQUIRES that none of the rule's pairs is installed (the virtual platform's
``_assert_rule_does_not_exist``; on real hardware a second rule would silently overwrite the first) and returns a
handle owning exactly those pairs; ``clear_hw_rule(handle)`` REQUIRES the handle's pairs to be installed and removes
exactly them.  "Installs each rule once / removes all of them" is then: every call-site obligation discharged + the
class invariant

    enabled  =>  _active_rules / _rule are handles for exactly the pairs of the wiring table, all installed
    disabled =>  no handle kept (flipper), none of the device's pairs installed
    flipper: _sw_flipped => enabled

proved to be re-established by every public method (enable, disable, sw_flip, sw_release, _ball_search, _hit, event
handlers), for all five flipper wirings and both autofire rule kinds.  For all interleavings of those calls the property
follows by induction over the per-call contracts.
"""
import ast as pyast
import re

import z3

from pyvc.contract import ContractSet, LoopSpec
from pyvc.vals import *       # noqa
from pyvc import extract
from pyvc.ctx import Unsupported
from pyvc.interp import MISSING
from . import common
from .common import emit, events_named, delay_present

FL = "mpf/devices/flipper.py"
AF = "mpf/devices/autofire.py"
KB = "mpf/devices/kickback.py"
PC = "mpf/core/platform_controller.py"
SPEC = "mpf/config_spec.yaml"


def spec_defaults_check(C):
    """the game-lifecycle clause: by default every flipper / autofire coil / kickback is disabled on ball_will_end and
    service_mode_entered (constants of the real config_spec.yaml), and disable wins over enable on the same event"""
    import os
    s = open(os.path.join(extract.REPO, SPEC)).read()
    rows = []
    for sec in ("flippers", "autofire_coils", "kickbacks"):
        m = re.search(r"^%s:\n((?:    .*\n)+)" % sec, s, re.M)
        blk = m.group(1) if m else ""
        d = re.search(r"^\s+disable_events:\s*(.*)$", blk, re.M)
        dv = d.group(1).split("|")[-1] if d else ""
        evs = {x.strip() for x in dv.split(",")}
        rows.append(("config_spec %s.disable_events defaults to ball_will_end and service_mode_entered" % sec,
                     {"ball_will_end", "service_mode_entered"} <= evs, "default: %r" % dv))
    for rel, cls in ((FL, "Flipper"), (AF, "AutofireCoil")):
        pr = {}
        for meth in ("event_enable", "event_disable"):
            node, _ = extract.find_def(rel, "%s.%s" % (cls, meth))
            for dcr in node.decorator_list:
                if isinstance(dcr, pyast.Call) and pyast.unparse(dcr.func) == "event_handler":
                    pr[meth] = pyast.literal_eval(dcr.args[0])
        rows.append(("%s: event_disable runs before event_enable when both are bound to one event" % cls,
                     pr.get("event_disable", -1) > pr.get("event_enable", 99), "priorities %r" % pr))
    return rows


def build():
    C = ContractSet("C10", "Hardware switch-to-coil rules match the enabled devices exactly")
    C.strings = True
    C.finite_checks.append(spec_defaults_check)
    C.finite_checks.append(common.native_demo_check(
        'c10_tilt_while_no_ball_in_play.py',
        'a tilt that arrives while no ball is in play (ball ending held by the bonus) does not leave the machine tilted with live flippers for the next ball'))
    C.finite_checks.append(common.native_demo_check(
        "c10_repulse_stopped_while_button_held.py",
        "a flipper disabled while its software EOS repulse holds the coil (button still held) leaves the coil off"))
    common.declare_events(C)
    common.declare_delay_client(C)
    for nt in ("SwitchRuleSettings", "DriverRuleSettings", "PulseRuleSettings", "HoldRuleSettings", "EosRuleSettings"):
        C.namedtuples[nt] = extract.namedtuple_fields(PC, nt)

    # ------------------------------------------------------------------ ghost: installed pairs
    def rules(I):
        return I.__dict__.setdefault("c10_rules", {})

    def inst(I, sw, drv):
        r = rules(I)
        k = (sw, drv)
        if k not in r:
            r[k] = z3.Bool("installed0[%s,%s]" % (sw.name, drv.name))
        return r[k]

    def set_inst(I, sw, drv, val):
        rules(I)[(sw, drv)] = z3.BoolVal(val)

    class Handle:
        """what a HardwareRule owns: its (switch, driver) pairs"""
    C.cls("HardwareRule", fields={})

    def new_handle(I, pairs, kind, name=None):
        I.ctx.fresh_n += 1
        o = Obj("HardwareRule", ObjS("HardwareRule", {}), name or "rule#%d" % I.ctx.fresh_n)
        o.pairs = tuple(pairs)
        o.rule_kind = kind
        return VObj(o)

    def sw_of(I, s):
        s = I.force(s)
        return I.force(s.items[s.fields.index("switch")] if s.fields else s.items[0]).ref

    def drv_of(I, d):
        d = I.force(d)
        o = I.force(d.items[d.fields.index("driver")] if d.fields else d.items[0])
        return o.ref if o.tag == "obj" else None

    def pairs_free(I, *args):
        """none of the pairs (switch_i, driver) is installed"""
        *sws, drv = args
        d = drv_of(I, drv)
        if d is None or any(I.force(I.force(s).items[0]).tag != "obj" for s in sws):
            return VBool(False)         # a rule for a switch / coil that is not configured
        return VBool(z3.And(*[z3.Not(inst(I, sw_of(I, s), d)) for s in sws]))
    C.helpers["pairs_free"] = pairs_free

    def handle_installed(I, h):
        h = I.force(h)
        if h.tag != "obj" or not hasattr(h.ref, "pairs"):
            return VBool(False)
        return VBool(z3.And(*[inst(I, s, d) for s, d in h.ref.pairs]))
    C.helpers["handle_installed"] = handle_installed

    FLIPPER_KINDS = ("pulse_on_hit_and_release", "pulse_on_hit_and_enable_and_release",
                     "pulse_on_hit_and_release_and_disable", "pulse_on_hit_and_enable_and_release_and_disable")

    def setter(kind, n_sw):
        def m(I, env, a, k):
            names = ["enable_switch", "eos_switch"][:n_sw]
            d = drv_of(I, env["driver"])
            if d is None:
                I.raise_("AttributeError", "'NoneType' object has no attribute 'get_and_verify_pulse_ms'")
            if kind in FLIPPER_KINDS and "self" in I.frames[0].env and I.frames[0].env["self"].ref.cls == "Flipper" \
                    and I.ctx.fork(2) == 1:
                # the platform (or the driver's limit check) refuses the rule: nothing is installed
                emit(I, "rule.fault", kind=kind)
                I.raise_("AssertionError", "platform fault while writing the rule")
            sws = [sw_of(I, env[nm]) for nm in names]
            for s in sws:
                set_inst(I, s, d, True)
            h = new_handle(I, [(s, d) for s in sws], kind)
            emit(I, "rule.set", kind=kind, handle=h)
            return h
        return m
    RS = ("pair not yet installed: a rule is installed once (the virtual platform asserts this; real hardware would "
          "silently overwrite)")
    T = "platform controller: installs exactly the pairs of the returned HardwareRule (core/platform_controller.py, " \
        "not yet verified itself)"
    one = dict(enable_switch=TupleS(), driver=TupleS(), pulse_setting=TupleS(), hold_settings=TupleS())
    for kind, n_sw, params in (
            ("pulse_on_hit", 1, ["enable_switch", "driver", "pulse_setting"]),
            ("delayed_pulse_on_hit", 1, ["enable_switch", "driver", "delay_ms", "pulse_setting"]),
            ("pulse_on_hit_and_release", 1, ["enable_switch", "driver", "pulse_setting"]),
            ("pulse_on_hit_and_enable_and_release", 1, ["enable_switch", "driver", "pulse_setting", "hold_settings"]),
            ("pulse_on_hit_and_release_and_disable", 2, ["enable_switch", "eos_switch", "driver", "pulse_setting",
                                                         "eos_settings"]),
            ("pulse_on_hit_and_enable_and_release_and_disable", 2, ["enable_switch", "eos_switch", "driver",
                                                                    "pulse_setting", "hold_settings", "eos_settings"])):
        req = "pairs_free(enable_switch, %sdriver)" % ("eos_switch, " if n_sw == 2 else "")
        C.ext("PlatformController.set_%s_rule" % kind, params={p: Opaque("Any") for p in params},
              requires=[(RS, req)], model=setter(kind, n_sw), trusted_reason=T)

    def clear(I, env, a, k):
        h = I.force(env["rule"])
        for s, d in h.ref.pairs:
            set_inst(I, s, d, False)
        emit(I, "rule.clear", handle=h)
        return NONE
    C.ext("PlatformController.clear_hw_rule", params=dict(rule=Opaque("Any")),
          requires=[("only an installed rule is cleared (each rule is removed once)", "handle_installed(rule)")],
          model=clear, trusted_reason="platform controller: removes exactly the pairs of the HardwareRule")
    C.cls("PlatformController", fields={})

    # ------------------------------------------------------------------ devices' parts
    C.cls("Switch", fields=dict(config=Rec(debounce=Str), name=Str))
    C.cls("Driver", fields=dict(config=Rec(default_recycle=Opt(Bool)), name=Str))

    def coil_op(op):
        def m(I, env, a, k):
            emit(I, "coil", op=op, coil=env["self"].ref)
            return NONE
        return m
    for op in ("pulse", "enable", "disable"):
        C.ext("Driver.%s" % op, model=coil_op(op), trusted_reason="coil command (limits verified under C08)")

    def coil_cmds(I, coil_v):
        c = I.force(coil_v)
        return [e.args["op"] for e in events_named(I, "coil") if c.tag == "obj" and e.args["coil"] is c.ref]
    C.helpers["n_coil"] = lambda I, coil, op: VInt(len([o for o in coil_cmds(I, coil) if o == I.pyconst(I.force(op))]))
    C.helpers["last_coil_cmd"] = lambda I, coil: (VStr(coil_cmds(I, coil)[-1]) if coil_cmds(I, coil) else NONE)
    C.helpers["n_rule_sets"] = lambda I: VInt(len(events_named(I, "rule.set")))
    C.helpers["n_rule_clears"] = lambda I: VInt(len(events_named(I, "rule.clear")))
    C.helpers["n_coil_cmds"] = lambda I: VInt(len(events_named(I, "coil")))
    C.trace_helpers = {"n_coil", "last_coil_cmd", "n_rule_sets", "n_rule_clears", "n_coil_cmds", "rule_kinds",
                       "n_posts", "delay_added"}
    C.helpers["n_posts"] = lambda I: VInt(len(events_named(I, "post")))

    def rule_kinds(I, *kinds):
        got = [e.args["kind"] for e in events_named(I, "rule.set")]
        return VBool(got == [I.pyconst(I.force(k)) for k in kinds])
    C.helpers["rule_kinds"] = rule_kinds
    C.cls("LogMixin", fields={})
    C.cls("Device", fields={}, bases=["LogMixin"])
    C.cls("SystemWideDevice", fields={}, bases=["Device"])
    MACHINE = ObjS("MachineController", platform_controller=ObjS("PlatformController"), events=ObjS("EventManager"),
                   delay=common.DelayMgr, clock=ObjS("Clock"))
    C.cls("Clock", fields={})
    C.ext("Clock.get_time", model=lambda I, env, a, k: VReal(z3.Real("clock_now")), trusted_reason="clock")

    # ------------------------------------------------------------------ Flipper
    WIRINGS = ("no_switch", "single", "single_eos", "dual", "dual_eos")

    def mk(cls, name):
        return VObj(Obj(cls, None, name))

    def flipper_config(I, name):
        w = WIRINGS[I.ctx.fork(len(WIRINGS))]
        act, eos = mk("Switch", "act_switch"), mk("Switch", "eos_switch")
        main, hold = mk("Driver", "main_coil"), mk("Driver", "hold_coil")
        ents = [("activation_switch", act if w != "no_switch" else NONE),
                ("eos_switch", eos if w.endswith("_eos") else NONE),
                ("use_eos", VBool(w.endswith("_eos"))),
                ("main_coil", main),
                ("hold_coil", hold if w.startswith("dual") else NONE),
                ("repulse_on_eos_open", I.fresh(Bool, name + ".repulse")),
                ("eos_active_ms_before_repulse", I.fresh(Int, name + ".eos_ms")),
                ("ball_search_hold_time", I.fresh(Int, name + ".bs_hold")),
                ("wiring#", VStr(w))]
        return I.new_dict(ents, name)

    def wiring(I, this):
        cfg = I.container(I.force(I.read_field(this, "config")).ref)
        g = lambda k: cfg.get(k)
        return I.pyconst(g("wiring#")), g("activation_switch"), g("eos_switch"), g("main_coil"), g("hold_coil")

    def expected_groups(I, this):
        """the wiring table of Flipper.enable's documentation: which rule (group of pairs) per wiring"""
        w, act, eos, main, hold = wiring(I, this)
        if w == "no_switch":
            return []
        if w == "single":
            return [("pulse_on_hit_and_enable_and_release", [(act.ref, main.ref)])]
        if w == "single_eos":
            return [("pulse_on_hit_and_enable_and_release_and_disable", [(act.ref, main.ref), (eos.ref, main.ref)])]
        if w == "dual":
            return [("pulse_on_hit_and_release", [(act.ref, main.ref)]),
                    ("pulse_on_hit_and_enable_and_release", [(act.ref, hold.ref)])]
        return [("pulse_on_hit_and_release_and_disable", [(act.ref, main.ref), (eos.ref, main.ref)]),
                ("pulse_on_hit_and_enable_and_release", [(act.ref, hold.ref)])]

    def all_own_pairs(I, this):
        w, act, eos, main, hold = wiring(I, this)
        out = []
        for s in (act, eos):
            for d in (main, hold):
                if s is not None and d is not None and s.tag == "obj" and d.tag == "obj":
                    out.append((s.ref, d.ref))
        return out

    def flipper_rules(I, name):
        """entry state of _active_rules: the handles an enabled flipper holds (constrained by the invariant)"""
        this = I.frames[0].env["self"].ref
        if not I.ctx.branch(I.truth(I.read_field(this, "_enabled"))):
            return I.new_list([], name)
        exp = expected_groups(I, this)
        k = I.ctx.fork(len(exp) + 1)            # 0..len rules: a fault may have interrupted enable()
        hs = [new_handle(I, pairs, kind, "%s[%d]" % (name, i)) for i, (kind, pairs) in enumerate(exp[:len(exp) - k])]
        return I.new_list(hs, name)

    def flipper_inv(I):
        this = I.frames[0].env["self"].ref
        en = I.truth(I.read_field(this, "_enabled"))
        lst = I.container(I.force(I.read_field(this, "_active_rules")).ref).items
        exp = expected_groups(I, this)
        # the held rules are a prefix of the wiring table (all of it after a complete enable)
        shape_ok = len(lst) <= len(exp) and all(
            I.force(h).tag == "obj" and getattr(I.force(h).ref, "pairs", None) == tuple(p) and
            I.force(h).ref.rule_kind == kind for h, (kind, p) in zip(lst, exp))
        own = all_own_pairs(I, this)
        exp_pairs = [p for _, ps in exp[:len(lst)] for p in ps]
        enabled_case = z3.And(z3.BoolVal(shape_ok), *[inst(I, s, d) if (s, d) in exp_pairs else z3.Not(inst(I, s, d))
                                                      for s, d in own])
        disabled_case = z3.And(z3.BoolVal(len(lst) == 0), *[z3.Not(inst(I, s, d)) for s, d in own])
        flipped = I.truth(I.read_field(this, "_sw_flipped"))
        return VBool(z3.And(z3.If(en, enabled_case, disabled_case), z3.Implies(flipped, en)))
    C.helpers["flipper_inv"] = flipper_inv

    def own_installed(I):
        this = I.frames[0].env["self"].ref
        return VBool(z3.Or(*[inst(I, s, d) for s, d in all_own_pairs(I, this)] + [z3.BoolVal(False)]))
    C.helpers["any_own_rule_installed"] = own_installed
    C.helpers["n_expected_rules"] = lambda I: VInt(len(expected_groups(I, I.frames[0].env["self"].ref)))
    C.helpers["n_held_rules"] = lambda I: VInt(len(I.container(I.force(I.read_field(
        I.frames[0].env["self"].ref, "_active_rules")).ref).items))
    C.helpers["n_faults"] = lambda I: VInt(len(events_named(I, "rule.fault")))
    C.trace_helpers |= {"n_faults"}

    def expected_kinds(I):
        this = I.frames[0].env["self"].ref
        got = [e.args["kind"] for e in events_named(I, "rule.set")]
        return VBool(got == [k for k, _ in expected_groups(I, this)])
    C.helpers["installed_rules_are_the_wiring_table"] = expected_kinds
    C.trace_helpers |= {"installed_rules_are_the_wiring_table"}
    C.cls("Flipper", file=FL, bases=["SystemWideDevice"], fields=dict(
        machine=MACHINE, config=Init(flipper_config), _enabled=Bool, _sw_flipped=Bool,
        _active_rules=Init(flipper_rules), name=Str),
        invariants=[("R: every installed rule of the flipper is held in _active_rules (so disable() removes it) and is a "
                     "rule of the wiring table, in order; a disabled flipper holds and has none; software flip only "
                     "while enabled", "flipper_inv()")])
    for g in ("_get_pulse_ms", "_get_hold_pulse_ms", "_get_pulse_power", "_get_hold_pulse_power", "_get_hold_power"):
        C.ext("Flipper." + g, model=lambda I, env, a, k: I.fresh(Opt(Real), I.fresh_name("setting")),
              trusted_reason="rule parameter lookup (pulse/hold settings; their limits are C08)")
    for q in ("_enable_single_coil_rule", "_enable_main_coil_pulse_rule", "_enable_hold_coil_rule",
              "_enable_main_coil_eos_cutoff_rule"):
        C.fn("Flipper." + q, inline=True, no_inv=True)
    MAIN, HOLD = "self.config['main_coil']", "self.config['hold_coil']"
    FM = ["self._enabled", "self._sw_flipped", "self._active_rules", "self._active_rules.**"]
    C.fn("Flipper.enable",
         ensures=[("enabled afterwards", "self._enabled"),
                  ("F1: an already enabled flipper installs nothing; otherwise exactly the rules of the wiring table, "
                   "each once, and all of them are held",
                   "n_rule_sets() == 0 if old(self._enabled) else (installed_rules_are_the_wiring_table() and "
                   "n_held_rules() == n_expected_rules())"),
                  ("nothing is cleared and no coil is driven", "n_rule_clears() == 0 and n_coil_cmds() == 0")],
         raises={"AssertionError": True},
         ensures_exc=[("F1x: when the platform refuses a rule half way, every rule already installed is still held "
                       "and the flipper counts as enabled, so that disable() removes them", "flipper_inv()"),
                      ("only a platform fault makes enable fail", "n_faults() == 1")],
         modifies=FM, inline_calls=True)
    C.fn("Flipper.disable",
         loops={0: LoopSpec(invariant=[], unroll=True)},
         ensures=[("disabled afterwards, not software-flipped", "not self._enabled and not self._sw_flipped"),
                  ("F2: every rule the flipper held is cleared, each once, and none is installed",
                   "n_rule_clears() == (old(n_held_rules()) if old(self._enabled) else 0) and n_rule_sets() == 0 and "
                   "not any_own_rule_installed()"),
                  ("F3: a software-flipped flipper is released: no flipper coil is left energised",
                   "implies(old(self._sw_flipped), last_coil_cmd(" + MAIN + ") == 'disable' and "
                   "(" + HOLD + " is None or last_coil_cmd(" + HOLD + ") == 'disable'))"),
                  ("no coil is driven otherwise", "implies(not old(self._sw_flipped), n_coil_cmds() == 0)")],
         modifies=FM, raises={}, inline_calls=True)
    C.fn("Flipper.sw_flip",
         ensures=[("F4: a disabled flipper cannot be flipped by software", "implies(not self._enabled, "
                   "n_coil_cmds() == 0 and self._sw_flipped == old(self._sw_flipped))"),
                  ("an enabled one is flipped and remembered, so that disable() releases it",
                   "implies(self._enabled, self._sw_flipped)"),
                  ("rules are not touched", "n_rule_sets() == 0 and n_rule_clears() == 0")],
         modifies=["self._sw_flipped"], raises={}, inline_calls=True)
    C.fn("Flipper.sw_release",
         ensures=[("released: both coils off", "not self._sw_flipped and last_coil_cmd(" + MAIN + ") == 'disable' and "
                   "(" + HOLD + " is None or last_coil_cmd(" + HOLD + ") == 'disable')"),
                  ("rules are not touched", "n_rule_sets() == 0 and n_rule_clears() == 0")],
         modifies=["self._sw_flipped"], raises={}, inline_calls=True)

    def delay_added(I, name_prefix):
        ev = events_named(I, "delay.add")
        return VBool(len(ev) == 1)
    C.helpers["delay_added"] = delay_added
    C.fn("Flipper._ball_search", params=dict(phase=Int, iteration=Int), result=Bool,
         ensures=[("ball search flips only an enabled flipper and always schedules the release",
                   "delay_added('flipper_') and n_rule_sets() == 0 and n_rule_clears() == 0 and "
                   "implies(not self._enabled, n_coil_cmds() == 0)")],
         modifies=["self._sw_flipped", "self.machine.delay.pending.**"], raises={})
    C.fn("Flipper.event_enable", ensures=["self._enabled"], modifies=FM, raises={"AssertionError": True},
         ensures_exc=["flipper_inv()"], allow_decorators=["event_handler"])
    C.fn("Flipper.event_disable", ensures=["not self._enabled and not any_own_rule_installed()"], modifies=FM,
         raises={}, allow_decorators=["event_handler"], loops={})
    C.fn("Flipper.event_sw_flip", ensures=["implies(not self._enabled, n_coil_cmds() == 0)"],
         modifies=["self._sw_flipped"], raises={}, allow_decorators=["event_handler"])
    C.fn("Flipper.event_sw_release", ensures=["not self._sw_flipped"], modifies=["self._sw_flipped"], raises={},
         allow_decorators=["event_handler"])

    # ------------------------------------------------------------------ AutofireCoil / Kickback
    def af_config(I, name):
        sw, coil = mk("Switch", "af_switch"), mk("Driver", "af_coil")
        sw.ref.shape = ObjS("Switch", C.classes["Switch"].fields)
        coil.ref.shape = ObjS("Driver", C.classes["Driver"].fields)
        co = I.new_dict([("recycle", I.fresh(Opt(Bool), name + ".co.recycle")),
                         ("pulse_ms", I.fresh(Opt(Int), name + ".co.pulse_ms")),
                         ("pulse_power", I.fresh(Opt(Real), name + ".co.pulse_power"))] if I.ctx.fork(2) else [],
                        name + ".coil_overwrite")
        so = I.new_dict([("debounce", I.fresh(Opt(Str), name + ".so.debounce"))] if I.ctx.fork(2) else [],
                        name + ".switch_overwrite")
        return I.new_dict([("switch", sw), ("coil", coil), ("coil_overwrite", co), ("switch_overwrite", so),
                           ("coil_pulse_delay", I.fresh(Int, name + ".pulse_delay")),
                           ("reverse_switch", I.fresh(Bool, name + ".reverse"))], name)

    def af_pair(I, this):
        cfg = I.container(I.force(I.read_field(this, "config")).ref)
        return cfg.get("switch").ref, cfg.get("coil").ref

    def af_rule(I, name):
        this = I.frames[0].env["self"].ref
        pair = af_pair(I, this)
        if I.ctx.branch(I.truth(I.read_field(this, "_enabled"))):
            kind = "delayed_pulse_on_hit" if I.ctx.branch(I.truth(I.container(I.force(I.read_field(
                this, "config")).ref).get("coil_pulse_delay"))) else "pulse_on_hit"
            return new_handle(I, [pair], kind, name)
        # a disabled device keeps no rule, or the stale handle of the rule it cleared
        return NONE if I.ctx.fork(2) == 0 else new_handle(I, [pair], "stale", name)

    def af_inv(I):
        this = I.frames[0].env["self"].ref
        en = I.truth(I.read_field(this, "_enabled"))
        s, d = af_pair(I, this)
        r = I.force(I.read_field(this, "_rule"))
        holds = r.tag == "obj" and getattr(r.ref, "pairs", None) == ((s, d),)
        return VBool(z3.If(en, z3.And(z3.BoolVal(holds), inst(I, s, d)), z3.Not(inst(I, s, d))))
    C.helpers["autofire_inv"] = af_inv
    C.helpers["own_rule_installed"] = lambda I: VBool(inst(I, *af_pair(I, I.frames[0].env["self"].ref)))

    def reenable_pending(I):
        dm = I.force(I.read_field(I.frames[0].env["self"].ref, "delay")).ref
        return VBool(delay_present(I, dm, "_timeout_enable_delay"))
    C.helpers["reenable_pending"] = reenable_pending
    C.cls("Playfield", fields={})
    C.ext("Playfield.mark_playfield_active_from_device_action", model=common.noop,
          trusted_reason="playfield activity notification")
    AFF = dict(machine=MACHINE, config=Init(af_config), _enabled=Bool, _rule=Init(af_rule), delay=common.DelayMgr,
               _ball_search_in_progress=Bool, playfield=ObjS("Playfield"), _timeout_watch_time=Opt(Real),
               _timeout_max_hits=Opt(Int), _timeout_disable_time=Opt(Int), _timeout_hits=Seq(Real), name=Str)
    INV = [("A: enabled <=> the device's one rule is installed and held in _rule", "autofire_inv()")]
    C.cls("AutofireCoil", file=AF, bases=["SystemWideDevice"], fields=AFF, invariants=INV)
    C.cls("Kickback", file=KB, bases=["AutofireCoil"], fields={}, invariants=[])
    AM = ["self._enabled", "self._rule", "self.delay.pending.**"]
    C.fn("AutofireCoil.enable",
         ensures=[("enabled afterwards", "self._enabled"),
                  ("A1: an already enabled device installs nothing; otherwise exactly one rule, delayed iff a pulse "
                   "delay is configured",
                   "n_rule_sets() == 0 if old(self._enabled) else (rule_kinds('delayed_pulse_on_hit') if "
                   "self.config['coil_pulse_delay'] else rule_kinds('pulse_on_hit'))"),
                  ("nothing is cleared", "n_rule_clears() == 0")],
         modifies=AM, raises={}, inline_calls=True)
    C.fn("AutofireCoil.disable",
         ensures=[("disabled afterwards and the rule is gone", "not self._enabled and not own_rule_installed()"),
                  ("A2: the rule is cleared once iff the device was enabled",
                   "n_rule_clears() == (1 if old(self._enabled) else 0) and n_rule_sets() == 0"),
                  ("A3: a pending timeout re-enable is cancelled on EVERY path, so the rule cannot come back after "
                   "ball end", "not reenable_pending()")],
         modifies=AM, raises={}, inline_calls=True)
    C.fn("AutofireCoil._hit",
         loops={0: LoopSpec(invariant=[], modifies=[])},
         ensures=[("A4: a hit on a disabled device changes nothing",
                   "implies(not old(self._enabled), n_rule_sets() == 0 and n_rule_clears() == 0 and "
                   "not self._enabled and implies(not old(reenable_pending()), not reenable_pending()))"),
                  ("A5: the timeout path disables the device and schedules the re-enable; no other path touches rules",
                   "n_rule_sets() == 0 and (n_rule_clears() == 0 or (not self._enabled and reenable_pending()))")],
         modifies=AM + ["self._timeout_hits", "self._timeout_hits.**"], raises={}, inline_calls=True,
         requires=[("timeout settings are configured together", "implies(self._timeout_watch_time, "
                    "self._timeout_max_hits is not None and self._timeout_disable_time is not None)")])
    C.fn("AutofireCoil._ball_search", params=dict(phase=Int, iteration=Int), result=Bool,
         ensures=[("ball search pulses the coil directly and leaves the rule alone",
                   "n_rule_sets() == 0 and n_rule_clears() == 0 and self._enabled == old(self._enabled)")],
         modifies=["self._ball_search_in_progress", "self.delay.pending.**"], raises={})
    C.fn("AutofireCoil._ball_search_ignore_done", ensures=["not self._ball_search_in_progress"],
         modifies=["self._ball_search_in_progress"], raises={})
    C.fn("AutofireCoil.event_enable", ensures=["self._enabled"], modifies=AM, raises={},
         allow_decorators=["event_handler"])
    C.fn("AutofireCoil.event_disable", ensures=["not self._enabled and not own_rule_installed() and "
                                                "not reenable_pending()"], modifies=AM, raises={},
         allow_decorators=["event_handler"])
    C.fn("Kickback._hit",
         ensures=[("K1: the fired event is posted iff the kickback is (still) enabled",
                   "n_posts() == (1 if self._enabled else 0)"),
                  ("rules change only through the timeout path", "n_rule_sets() == 0")],
         modifies=AM + ["self._timeout_hits", "self._timeout_hits.**"], raises={},
         requires=[("timeout settings are configured together", "implies(self._timeout_watch_time, "
                    "self._timeout_max_hits is not None and self._timeout_disable_time is not None)")])
    C.assume("A-CONFIG devices own disjoint (switch, driver) pairs; a flipper's activation / EOS switches and main / "
             "hold coils are distinct objects")
    C.assume("the platform controller's set_*/clear_hw_rule are assumed contracts (pairs installed/removed exactly as "
             "the returned HardwareRule says); platform back ends are outside")
    C.assume("the game-lifecycle clause (ball end / tilt / service / no game => disabled) is the config_spec default "
             "disable_events checked each run plus F2/A2/A3; it relies on C06's event order and is not a VC here")
    return C


VP = "mpf/platforms/virtual.py"


def build_extra():
    """the layer below the devices: PlatformController.set_*_rule / clear_hw_rule (core/platform_controller.py) against
    the platform interface, and the virtual platform's rule table (platforms/virtual.py) - so that the contracts the
    device proofs assume are themselves proved for the virtual platform"""
    C = ContractSet("C10", "platform controller and virtual platform: rules installed / removed exactly as returned")
    C.strings = False
    for nt in ("SwitchRuleSettings", "DriverRuleSettings", "PulseRuleSettings", "HoldRuleSettings", "EosRuleSettings",
               "HardwareRule"):
        C.namedtuples[nt] = extract.namedtuple_fields(PC, nt)
    C.namedtuples["PulseSettings"] = extract.namedtuple_fields("mpf/platforms/interfaces/driver_platform_interface.py",
                                                             "PulseSettings")
    C.namedtuples["HoldSettings"] = extract.namedtuple_fields("mpf/platforms/interfaces/driver_platform_interface.py",
                                                            "HoldSettings")

    def dataclass_model(name, fields):
        C.cls(name, fields={f: Opaque("Any") for f in fields})

        def m(I, a, k):
            I.ctx.fresh_n += 1
            o = Obj(name, ObjS(name, {}), "%s#%d" % (name, I.ctx.fresh_n))
            I.creating_new += 1
            try:
                for i, f in enumerate(fields):
                    I.write_field(o, f, k.get(f, a[i] if i < len(a) else NONE))
            finally:
                I.creating_new -= 1
            return VObj(o)
        C.globals[name] = VFn("model", model=m)
    dataclass_model("SwitchSettings", ("hw_switch", "invert", "debounce"))
    dataclass_model("DriverSettings", ("hw_driver", "pulse_settings", "hold_settings", "recycle"))
    dataclass_model("RepulseSettings", ("enable_repulse", "debounce_ms"))
    C.cls("HwSwitch", fields=dict(number=Int))
    C.cls("HwDriver", fields=dict(number=Int))
    C.cls("Platform", fields=dict(features=Rec(hardware_eos_repulse=Bool)))
    KINDS = ("pulse_on_hit", "delayed_pulse_on_hit", "pulse_on_hit_and_release", "pulse_on_hit_and_enable_and_release",
             "pulse_on_hit_and_release_and_disable", "pulse_on_hit_and_enable_and_release_and_disable")

    def plat_set(kind):
        def m(I, env, a, k):
            emit(I, "platform.set", kind=kind, args=a, platform=env["self"].ref)
            return NONE
        return m
    for kd in KINDS:
        C.ext("Platform.set_%s_rule" % kd, model=plat_set(kd), trusted_reason="platform interface (virtual platform: below)")
    C.ext("Platform.clear_hw_rule", model=lambda I, env, a, k: (emit(I, "platform.clear", switch=a[0], driver=a[1],
                                                                     platform=env["self"].ref), NONE)[1],
          trusted_reason="platform interface (virtual platform: below)")
    PLAT = ObjS("Platform", C.classes["Platform"].fields)

    def the_platform(I, name):
        """switch and coil of a rule are on the same platform (the code refuses anything else): one platform object
        per path, since objects never alias symbolically"""
        d = I.__dict__
        if "c10_platform" not in d:
            d["c10_platform"] = VObj(Obj("Platform", PLAT, "the_platform"))
        return d["c10_platform"]
    C.cls("Switch", fields=dict(hw_switch=ObjS("HwSwitch", number=Int), invert=Bool, name=Str,
                                platform=Init(the_platform)))
    C.cls("Driver", fields=dict(hw_driver=ObjS("HwDriver", number=Int), name=Str, platform=Init(the_platform),
                                config=Rec(psu=ObjS("PSU"))))
    C.cls("PSU", fields={})
    C.ext("Driver.get_and_verify_pulse_ms", model=lambda I, env, a, k: VInt(z3.Int(I.fresh_name("pulse_ms"))),
          trusted_reason="driver limits (verified under C08)")
    C.ext("Driver.get_and_verify_pulse_power", model=lambda I, env, a, k: VReal(z3.Real(I.fresh_name("pulse_power"))),
          trusted_reason="driver limits (verified under C08)")
    C.ext("Driver.get_and_verify_hold_power", model=lambda I, env, a, k: VReal(z3.Real(I.fresh_name("hold_power"))),
          trusted_reason="driver limits (verified under C08)")
    C.cls("SwitchController", fields={})

    def add_sw(I, env, a, k):
        I.ctx.fresh_n += 1
        key = VOpaque("SwitchKey", z3.Const("swkey!%d" % I.ctx.fresh_n, usort("SwitchKey")))
        emit(I, "add_switch_handler", key=key, kwargs=k)
        return key
    C.ext("SwitchController.add_switch_handler", model=add_sw, trusted_reason="switch controller (C03)")
    C.ext("SwitchController.add_switch_handler_obj", model=add_sw, trusted_reason="switch controller (C03)")
    C.ext("SwitchController.remove_switch_handler_by_key",
          model=lambda I, env, a, k: (emit(I, "remove_switch_handler", key=a[0]), NONE)[1],
          trusted_reason="switch controller (C03)")
    C.ext("SwitchController.remove_switch_handler_by_keys",
          model=lambda I, env, a, k: (emit(I, "remove_switch_handlers", keys=a[0]), NONE)[1],
          trusted_reason="switch controller (C03)")
    C.cls("BcpInterface", fields={})
    C.ext("BcpInterface.send_driver_event", model=common.noop, trusted_reason="BCP monitoring notification")
    # the coil as the software repulse sees it: sw_on = "switched on by an enable() command of this manager and not
    # switched off since" (model state of the platform driver; pulse() ends by itself)
    C.cls("HwDrvR", fields=dict(sw_on=Bool))

    def hw_cmd(what, on):
        def m(I, env, a, k):
            emit(I, "sw_eos.hw." + what)
            if on is not None:
                I.write_field(env["self"].ref, "sw_on", VBool(z3.BoolVal(on)))
            return NONE
        return m
    C.ext("HwDrvR.enable", model=hw_cmd("enable", True), pure=False, trusted_reason="platform driver interface")
    C.ext("HwDrvR.disable", model=hw_cmd("disable", False), pure=False, trusted_reason="platform driver interface")
    C.ext("HwDrvR.pulse", model=hw_cmd("pulse", None), pure=False, trusted_reason="platform driver interface")
    DRV_R = ObjS("DriverSettingsR", hw_driver=ObjS("HwDrvR", sw_on=Bool), pulse_settings=Opaque("Any"),
                 hold_settings=Opt(Opaque("Any")))
    C.cls("DriverSettingsR", fields=dict(DRV_R.fields))
    INV_R = [("SE0: a coil the software repulse has switched on is on only while it sees the button held (its button-"
              "release handler - or stop() - switches it off)",
              "implies(self.driver.hw_driver.sw_on, self._button_is_active)")]
    C.cls("SoftwareEosRepulseManager", file=PC, fields=dict(
        machine=ObjS("MachineController", switch_controller=ObjS("SwitchController")), _handlers=Seq(Opaque("SwitchKey")),
        _button_is_active=Bool, _is_eos_closed_long_enough=Bool, enable_switch=Opaque("Any"), eos_switch=Opaque("Any"),
        driver=DRV_R, repulse_settings=Opaque("Any")), invariants=INV_R)
    C.globals["SoftwareEosRepulseManager"] = VFn("model", model=lambda I, a, k: (
        emit(I, "sw_eos.create"), VObj(Obj("SoftwareEosRepulseManager", ObjS("SoftwareEosRepulseManager", {}),
                                           I.fresh_name("sw_eos"))))[1])
    C.cls("MpfController", fields={})
    MACH = ObjS("MachineController", switch_controller=ObjS("SwitchController"),
                bcp=ObjS("Bcp", interface=ObjS("BcpInterface")))
    C.cls("PlatformController", file=PC, bases=["MpfController"], fields=dict(machine=MACH))
    for h in ("_check_and_get_platform", "_get_configured_switch", "_get_configured_driver_with_hold",
              "_get_configured_driver_no_hold", "_setup_switch_callback_for_psu", "_get_repulse_settings"):
        C.fn("PlatformController." + h, inline=True, no_inv=True)
    C.ext("PlatformController._notify_psu_about_pulse", model=common.noop, trusted_reason="PSU notification callback")

    def one_platform(I):
        """switch and driver objects of the rule settings share one platform (else the code raises)"""
        return None
    SW = lambda nm: TupleS(ObjS("Switch", C.classes["Switch"].fields), Bool, Bool, ntname="SwitchRuleSettings",
                           fields=tuple(C.namedtuples["SwitchRuleSettings"][0]))
    DRV = TupleS(ObjS("Driver", C.classes["Driver"].fields), Bool, ntname="DriverRuleSettings",
                 fields=tuple(C.namedtuples["DriverRuleSettings"][0]))
    PULSE = Union(NoneT, TupleS(Opt(Real), Opt(Int), ntname="PulseRuleSettings",
                                fields=tuple(C.namedtuples["PulseRuleSettings"][0])))
    HOLD = Union(NoneT, TupleS(Opt(Real), ntname="HoldRuleSettings", fields=tuple(C.namedtuples["HoldRuleSettings"][0])))
    EOS = Union(NoneT, TupleS(Bool, Int, ntname="EosRuleSettings", fields=tuple(C.namedtuples["EosRuleSettings"][0])))

    def installed_as_returned(I, kind, *switches_and_driver):
        """exactly one platform call of this kind, for the hw switch(es) and hw driver of the arguments, on the
        driver's platform; the returned HardwareRule names exactly these switch settings and this driver setting"""
        *sws, drv = switches_and_driver
        evs = events_named(I, "platform.set")
        if len(evs) != 1 or evs[0].args["kind"] != I.pyconst(I.force(kind)):
            return VBool(False)
        e = evs[0]
        res = I.force(I.result)
        if res.tag != "tuple" or res.ntname != "HardwareRule":
            return VBool(False)
        f = dict(zip(res.fields, res.items))
        rs = I.container(I.force(f["switch_settings"]).ref).items
        if len(rs) != len(sws):
            return VBool(False)
        d_obj = I.force(I.force(drv).items[0]).ref
        conj = [z3.BoolVal(I.force(f["platform"]).ref is e.args["platform"])]
        plat_args = [I.force(x) for x in e.args["args"]]
        for i, sw in enumerate(sws):
            s_obj = I.force(I.force(sw).items[0]).ref
            hw = I.force(I.read_field(s_obj, "hw_switch")).ref
            conj.append(z3.BoolVal(I.force(I.read_field(I.force(rs[i]).ref, "hw_switch")).ref is hw))
            conj.append(z3.BoolVal(plat_args[i].ref is I.force(rs[i]).ref))
        ds = I.force(f["driver_settings"])
        conj.append(z3.BoolVal(I.force(I.read_field(ds.ref, "hw_driver")).ref is
                               I.force(I.read_field(d_obj, "hw_driver")).ref))
        conj.append(z3.BoolVal(plat_args[len(sws)].ref is ds.ref))
        return VBool(z3.And(*conj))
    C.helpers["installed_as_returned"] = installed_as_returned
    C.helpers["n_platform_sets"] = lambda I: VInt(len(events_named(I, "platform.set")))
    C.helpers["n_platform_clears"] = lambda I: VInt(len(events_named(I, "platform.clear")))
    C.trace_helpers = {"installed_as_returned", "n_platform_sets", "n_platform_clears", "cleared_as_held",
                       "n_sw_eos_stops", "n_psu_removed"}
    SAMEP = ("switch and coil are on the same platform", "enable_switch.switch.platform is not None and "
             "driver.driver.platform is enable_switch.switch.platform")
    RAISES = {"AssertionError": True}
    for kind, extra in (("pulse_on_hit", dict(pulse_setting=PULSE)),
                        ("delayed_pulse_on_hit", dict(delay_ms=Int, pulse_setting=PULSE)),
                        ("pulse_on_hit_and_release", dict(pulse_setting=PULSE)),
                        ("pulse_on_hit_and_enable_and_release", dict(pulse_setting=PULSE, hold_settings=HOLD))):
        C.fn("PlatformController.set_%s_rule" % kind,
             params=dict(enable_switch=SW("enable"), driver=DRV, **extra), requires=[SAMEP],
             ensures=[("PC1: the rule is written to the platform once, for exactly the (switch, coil) pair given, and "
                       "the returned HardwareRule holds exactly what was written (so clear_hw_rule removes it)",
                       "installed_as_returned('%s', enable_switch, driver)" % kind)],
             modifies=[], raises=RAISES, ensures_exc=[("nothing is written when the parameters are refused",
                                                       "n_platform_sets() == 0")])
    for kind, extra in (("pulse_on_hit_and_release_and_disable", dict(pulse_setting=PULSE, eos_settings=EOS)),
                        ("pulse_on_hit_and_enable_and_release_and_disable",
                         dict(pulse_setting=PULSE, hold_settings=HOLD, eos_settings=EOS))):
        C.fn("PlatformController.set_%s_rule" % kind,
             params=dict(enable_switch=SW("enable"), eos_switch=SW("eos"), driver=DRV, **extra),
             requires=[SAMEP, ("the EOS switch is on that platform too", "eos_switch.switch.platform is "
                                                                         "driver.driver.platform")],
             ensures=[("PC2: one platform call for the two pairs (button, coil) and (EOS, coil); the returned "
                       "HardwareRule holds both switch settings", "installed_as_returned('%s', enable_switch, "
                       "eos_switch, driver)" % kind)],
             modifies=[], raises=RAISES, ensures_exc=[("nothing is written when the parameters are refused",
                                                       "n_platform_sets() == 0")])

    def rule_init(I, name):
        n = 1 + I.ctx.fork(2)
        plat = VObj(Obj("Platform", PLAT, name + ".platform"))
        sws = [VObj(Obj("SwitchSettings", ObjS("SwitchSettings", hw_switch=ObjS("HwSwitch", number=Int), invert=Bool,
                                               debounce=Bool), "%s.switch_settings[%d]" % (name, i))) for i in range(n)]
        ds = VObj(Obj("DriverSettings", ObjS("DriverSettings", hw_driver=ObjS("HwDriver", number=Int)),
                      name + ".driver_settings"))
        key = NONE if I.ctx.fork(2) == 0 else VOpaque("SwitchKey", z3.Const(name + ".switch_key", usort("SwitchKey")))
        sw_h = NONE if I.ctx.fork(2) == 0 else VObj(Obj("SoftwareEosRepulseManager",
                                                        ObjS("SoftwareEosRepulseManager", {}), name + ".sw_eos"))
        return VTuple([plat, I.new_list(sws, name + ".switch_settings"), ds, key, sw_h], "HardwareRule",
                      tuple(C.namedtuples["HardwareRule"][0]))

    def cleared_as_held(I, rule):
        r = I.force(rule)
        f = dict(zip(r.fields, r.items))
        sws = I.container(I.force(f["switch_settings"]).ref).items
        evs = events_named(I, "platform.clear")
        if len(evs) != len(sws):
            return VBool(False)
        ok = all(I.force(e.args["switch"]).ref is I.force(s_).ref and I.force(e.args["driver"]).ref is
                 I.force(f["driver_settings"]).ref and e.args["platform"] is I.force(f["platform"]).ref
                 for e, s_ in zip(evs, sws))
        return VBool(ok)
    C.helpers["cleared_as_held"] = cleared_as_held
    C.helpers["n_sw_eos_stops"] = lambda I: VInt(len(events_named(I, "sw_eos.stop")))

    def all_registered_handlers_held(I):
        """every switch handler the manager registered is kept in _handlers (so that stop() removes it)"""
        this = I.frames[0].env["self"].ref
        c = I.container(I.force(I.read_field(this, "_handlers")).ref)
        keys = [I.force(e.args["key"]).t for e in events_named(I, "add_switch_handler")]
        if isinstance(c, LConc):
            held = [I.force(x).t for x in c.items]
            return VBool(len(held) == len(keys) and all(a.eq(b) for a, b in zip(held, keys)))
        return VBool(False)
    C.helpers["all_registered_handlers_held"] = all_registered_handlers_held
    C.helpers["n_registered"] = lambda I: VInt(len(events_named(I, "add_switch_handler")))

    def stop_removes_all(I):
        this = I.frames[0].env["self"].ref
        evs = events_named(I, "remove_switch_handlers")
        if len(evs) != 1:
            return VBool(False)
        return VBool(I.force(evs[0].args["keys"]).ref is I.force(I.read_field(this, "_handlers")).ref)
    C.helpers["stop_removes_all"] = stop_removes_all
    C.trace_helpers |= {"all_registered_handlers_held", "n_registered", "stop_removes_all"}
    RS = ObjS("RepulseSettingsI", debounce_ms=Int)
    C.cls("RepulseSettingsI", fields=dict(debounce_ms=Int))
    C.fn("SoftwareEosRepulseManager.__init__",
         params=dict(machine=ObjS("MachineController", switch_controller=ObjS("SwitchController")),
                     enable_switch=SW("enable"), eos_switch=SW("eos"), driver=DRV_R, repulse_settings=RS),
         requires=["not driver.hw_driver.sw_on"],
         ensures=[("SE1: the software EOS repulse registers its four switch handlers (button on/off, EOS closed long "
                   "enough, EOS open) and keeps EVERY key in _handlers", "n_registered() == 4 and "
                   "all_registered_handlers_held()"),
                  ("SE0 holds for the new manager", "implies(self.driver.hw_driver.sw_on, self._button_is_active)")],
         modifies=["self.machine", "self.enable_switch", "self.eos_switch", "self.driver", "self.repulse_settings",
                   "self._button_is_active", "self._is_eos_closed_long_enough", "self._handlers", "self._handlers.**"],
         raises={}, no_inv=True)
    C.fn("SoftwareEosRepulseManager.stop",
         ensures=[("SE2: stop() removes all handlers held in _handlers - after it no EOS or button change can drive the "
                   "coil", "stop_removes_all()"),
                  ("SE5: ... and a coil the manager had switched on in software is switched off: the button release "
                   "that would have done it is not seen any more (flipper disabled at ball end / tilt / service while "
                   "the button is held)", "not self.driver.hw_driver.sw_on")],
         modifies=["self._button_is_active", "self.driver.hw_driver.sw_on"], raises={},
         emits=lambda I, env, res: emit(I, "sw_eos.stop"),
         call_ensures=["not self.driver.hw_driver.sw_on and not self._button_is_active"])
    RM = ["self._button_is_active", "self._is_eos_closed_long_enough", "self.driver.hw_driver.sw_on"]
    C.helpers["n_sw_hw"] = lambda I, what: VInt(len(events_named(I, "sw_eos.hw." + I.pyconst(I.force(what)))))
    C.trace_helpers |= {"n_sw_hw"}
    C.fn("SoftwareEosRepulseManager._button_active", params=dict(kwargs=Opaque("Any")),
         ensures=["self._button_is_active", "n_sw_hw('enable') == 0"], modifies=RM, raises={})
    C.fn("SoftwareEosRepulseManager._button_inactive", params=dict(kwargs=Opaque("Any")),
         ensures=[("SE4: the button release switches the coil off", "not self._button_is_active and "
                   "not self.driver.hw_driver.sw_on and n_sw_hw('disable') == 1")], modifies=RM, raises={})
    C.fn("SoftwareEosRepulseManager._eos_closed_long_enough", params=dict(kwargs=Opaque("Any")),
         ensures=["n_sw_hw('enable') == 0 and n_sw_hw('pulse') == 0"], modifies=RM, raises={})
    C.fn("SoftwareEosRepulseManager._repulse_on_eos_open", params=dict(kwargs=Opaque("Any")),
         ensures=[("SE3: the repulse drives the coil only while the button is held and the EOS switch had been closed "
                   "long enough, and consumes that", "implies(n_sw_hw('enable') + n_sw_hw('pulse') > 0, "
                   "old(self._button_is_active) and old(self._is_eos_closed_long_enough) and "
                   "not self._is_eos_closed_long_enough)"),
                  ("the button state is left alone", "self._button_is_active == old(self._button_is_active)")],
         modifies=RM, raises={})
    C.helpers["n_psu_removed"] = lambda I: VInt(len(events_named(I, "remove_switch_handler")))
    C.fn("PlatformController.clear_hw_rule", params=dict(rule=Init(rule_init)),
         loops={0: LoopSpec(invariant=[], unroll=True)},
         ensures=[("PC3: every (switch, coil) pair the HardwareRule holds is cleared on its platform, each once; the PSU "
                   "switch handler and the software EOS handlers are removed iff the rule has them",
                   "cleared_as_held(rule) and n_psu_removed() == (1 if rule.switch_key is not None else 0) and "
                   "n_sw_eos_stops() == (1 if rule.software_rule_handler is not None else 0)"),
                  ("PC4: a coil the rule's software repulse had switched on is off afterwards (SE5)",
                   "True if rule.software_rule_handler is None else "
                   "not rule.software_rule_handler.driver.hw_driver.sw_on")],
         requires=[("the rule's software repulse manager is a valid one (SE0)",
                    "True if rule.software_rule_handler is None else implies("
                    "rule.software_rule_handler.driver.hw_driver.sw_on, rule.software_rule_handler._button_is_active)")],
         modifies=["rule.software_rule_handler._button_is_active", "rule.software_rule_handler.driver.hw_driver.sw_on"],
         raises={})

    # ---- the virtual platform's rule table
    C.cls("Logger", fields={})
    C.ext("Logger.debug", model=common.noop, trusted_reason="logging")
    def rules_init(I, name):
        """the rule table: empty, holding a rule for the pair in question, or holding a rule for another pair"""
        env = I.frames[0].env
        sw = env.get("enable_switch", env.get("switch"))
        hs = I.force(I.read_field(I.force(sw).ref, "hw_switch"))
        hd = I.force(I.read_field(I.force(env["coil"]).ref, "hw_driver"))
        v = I.ctx.fork(3)
        if v == 0:
            return I.new_dict([], name)
        if v == 1:
            return I.new_dict([((hs.ref, hd.ref), VStr("pulse_on_hit"))], name)
        other = Obj("HwDriver", ObjS("HwDriver", number=Int), "another_driver")
        return I.new_dict([((hs.ref, other), VStr("pulse_on_hit"))], name)
    C.cls("VirtualHardwarePlatform", file=VP, fields=dict(rules=Init(rules_init), log=ObjS("Logger")),
          check_bases=False)
    SS = ObjS("SwitchSettings", hw_switch=ObjS("HwSwitch", number=Int), invert=Bool, debounce=Bool)
    DS = ObjS("DriverSettings", hw_driver=ObjS("HwDriver", number=Int))
    C.fn("VirtualHardwarePlatform._assert_rule_does_not_exist", inline=True, no_inv=True)

    def rule_is(I, sw, drv, kind):
        """the table holds exactly this kind of rule for the pair (kind None: no rule)"""
        this = I.frames[0].env["self"].ref
        c = I.container(I.force(I.read_field(this, "rules")).ref)
        hs = I.force(I.read_field(I.force(sw).ref, "hw_switch")).ref
        hd = I.force(I.read_field(I.force(drv).ref, "hw_driver")).ref
        want = None if I.force(kind).tag == "none" else I.pyconst(I.force(kind))
        for k, v in c.entries:
            items = k if isinstance(k, tuple) else (I.force(k).items if isinstance(k, Val) and I.force(k).tag == "tuple"
                                                    else ())
            objs = [x.ref if isinstance(x, VObj) else x for x in items]
            if len(objs) == 2 and objs[0] is hs and objs[1] is hd:
                return VBool(want is not None and I.pyconst(I.force(v)) == want)
        return VBool(want is None)
    C.helpers["rule_is"] = rule_is
    C.helpers["n_rules"] = lambda I: VInt(len(I.container(I.force(I.read_field(
        I.frames[0].env["self"].ref, "rules")).ref).entries))
    for kind in ("pulse_on_hit", "pulse_on_hit_and_release", "pulse_on_hit_and_enable_and_release"):
        C.fn("VirtualHardwarePlatform.set_%s_rule" % kind, params=dict(enable_switch=SS, coil=DS),
             ensures=[("V1: the pair gets exactly this rule; a pair that already has a rule is refused",
                       "rule_is(enable_switch, coil, '%s') and n_rules() == old(n_rules()) + 1" % kind)],
             raises={"AssertionError": "not rule_is(enable_switch, coil, None)"},
             ensures_exc=[("a refused rule changes nothing", "n_rules() == old(n_rules())")],
             modifies=["self.rules"])
    C.fn("VirtualHardwarePlatform.clear_hw_rule", params=dict(switch=SS, coil=DS),
         ensures=[("V2: the pair has no rule afterwards; other pairs keep theirs",
                   "rule_is(switch, coil, None) and n_rules() >= old(n_rules()) - 1")],
         modifies=["self.rules"], raises={})
    C.assume("the devices' proofs (main set) use the platform controller through the contracts PC1-PC3 proved here; the "
             "platform below it is the virtual platform (V1, V2); real hardware platforms are outside")
    C.only_verify = [k for k, f in C.fns.items() if f.verified]
    # what the device-level proofs rest on outside this file: software EOS handlers are removed by exactly their keys -
    # state included (C03's key-removal set); an end / tilt request made while a ball starts is not lost, so flippers
    # do not come up on a tilted ball (C06's _run_ball contract); the FAST back end really removes a rule it was asked
    # to clear
    from . import C03, C06
    c06 = C06.build()
    c06.pid = "C10g"
    c06.replay_pid = "C06"
    c06.only_verify = ["Game._run_ball"]
    # ... and the key handed out for a PSU notification handler names exactly that handler (the registered wrapper), so
    # that clearing one rule does not remove the handlers of the other rules on the same switch (C03's AK1)
    c03 = C03.build()
    c03.pid = "C10a"
    c03.replay_pid = "C03"
    c03.only_verify = ["SwitchController.add_switch_handler_obj"]
    return [C, C03.key_removal_set("C10k"), c06, fast_driver_set(), c03, control_events_set()]


FASTD = "mpf/platforms/fast/fast_driver.py"


def fast_driver_set():
    """FAST back end: clear_autofire removes the rule from the board whatever the driver is doing at that moment"""
    C = ContractSet("C10f", "FAST driver: a cleared rule is gone from the board")
    C.strings = True
    C.cls("Logger", fields={})
    common.declare_noop(C, "Logger", "debug", "info", "warning", reason="logging")
    C.cls("DelayI", fields={})
    common.declare_noop(C, "DelayI", "remove", reason="machine-wide delay manager (C13)")
    C.cls("Communicator", fields=dict(TRIGGER_CMD=Str, machine=ObjS("MachineController", delay=ObjS("DelayI"))))
    C.ext("Communicator.send_and_forget", model=lambda I, env, a, k: (common.emit(I, "sent", msg=a[0]), NONE)[1],
          trusted_reason="FAST serial communicator: queues the command for the board (C14)")
    C.cls("FastDriverConfig", fields=dict(trigger=Str))
    C.cls("FASTDriver", file=FASTD, fields=dict(
        log=ObjS("Logger"), number=Str, hw_number=Str, communicator=ObjS("Communicator"),
        autofire_config=Opt(ObjS("FastDriverConfig")), current_driver_config=ObjS("FastDriverConfig")))
    for b in ("set_bit", "clear_bit"):
        C.ext("FASTDriver." + b, model=lambda I, env, a, k: VStr(z3.String(I.fresh_name("hex"))),
              trusted_reason="hex-string bit helpers (Util.int_to_hex_string)")

    def rule_cleared(I):
        evs = common.events_named(I, "sent")
        if len(evs) != 1:
            return VBool(False)
        return VBool(z3.SuffixOf(z3.StringVal(",02"), I.force(evs[0].args["msg"]).t))
    C.helpers["rule_cleared_on_board"] = rule_cleared
    C.helpers["n_sent"] = lambda I: VInt(len(common.events_named(I, "sent")))
    C.trace_helpers = {"rule_cleared_on_board", "n_sent"}
    C.fn("FASTDriver.clear_autofire",
         ensures=[("FD1: when a rule is configured for the driver, clearing it ALWAYS tells the board to drop the trigger "
                   "(TL:<n>,02) and forgets the rule - also while a manual pulse / hold has temporarily replaced the rule "
                   "in the driver - so it cannot be re-armed later",
                   "implies(old(self.autofire_config) is not None, rule_cleared_on_board() and self.autofire_config is None)"),
                  ("without a rule nothing is sent", "implies(old(self.autofire_config) is None, n_sent() == 0)")],
         modifies=["self.autofire_config", "self.current_driver_config.trigger"], raises={})
    return C



DM = "mpf/core/device_manager.py"


def control_events_set():
    """machine-wide control events: an undelayed control event calls the device's own method DIRECTLY as the event
    handler - that method carries the @event_handler relative priority which orders disable (10) before enable (1) on a
    shared event, so that the rule of the device being disabled is gone before the other device installs its rule for
    the same switch / coil pair"""
    C = ContractSet("C10e", "control events keep the handler priorities of the device methods")
    C.strings = False
    C.cls("MpfController", fields={})
    C.cls("EventManager", fields={})

    def add_handler(I, env, a, k):
        emit(I, "add_handler", kwargs=dict(k), args=list(a))
        return NONE
    C.ext("EventManager.add_handler", model=add_handler, trusted_reason="event registration (C01)")
    C.cls("DelayI", fields={})
    NEV = 2

    def control_events(I, env, a, k):
        out = []
        for i in range(I.ctx.fork(NEV + 1)):
            out.append(VTuple([VStr(z3.String("ce_event%d" % i)), VOpaque("Fn", z3.Const("ce_method%d" % i, usort("Fn"))),
                               VInt(z3.Int("ce_delay%d" % i)), VOpaque("Any", z3.Const("ce_dev%d" % i, usort("Any")))]))
        I.__dict__["c10_ce"] = out
        for t in out:
            I.ctx.assume(I.force(t.items[2]).t >= 0)
        return I.new_list(out, "control_events")
    C.cls("DeviceManager", file=DM, bases=["MpfController"], fields=dict(
        machine=ObjS("MachineController", events=ObjS("EventManager"), delay=ObjS("DelayI"),
                     config=Opaque("Config"))))
    C.ext("DeviceManager.get_device_control_events", model=control_events,
          trusted_reason="enumerates (event, method, delay, device) of every *_events setting (generator)")

    def registered_directly(I):
        ces = I.__dict__.get("c10_ce", [])
        evs = events_named(I, "add_handler")
        if len(evs) != len(ces):
            return VBool(False)
        this = I.frames[0].env["self"].ref
        conj = []
        for t, e in zip(ces, evs):
            kw = e.args["kwargs"]
            h = I.force(kw.get("handler", NONE))
            delay = I.force(t.items[2]).t
            via_wrapper = h.tag == "fn" and getattr(h, "kind", None) == "bound" and h.obj is this and \
                h.name == "_control_event_handler"
            direct = I.eq(h, t.items[1]) if not via_wrapper else z3.BoolVal(False)
            wrapped_ok = z3.BoolVal(False)
            if via_wrapper:
                wrapped_ok = z3.And(I.eq(kw.get("callback", NONE), t.items[1]), I.eq(kw.get("ms_delay", NONE), t.items[2]))
            conj.append(I.eq(kw.get("event", NONE), t.items[0]))
            conj.append(z3.If(delay == 0, direct, wrapped_ok))
        return VBool(z3.And(conj + [z3.BoolVal(True)]))
    C.helpers["registered_directly"] = registered_directly
    C.trace_helpers = {"registered_directly"}
    C.fn("DeviceManager.create_machinewide_device_control_events", params=dict(kwargs=Opaque("Kwargs")),
         loops={0: LoopSpec(invariant=[], unroll=True)},
         ensures=[("CE1: one handler per control event; an UNDELAYED one is the device's method itself (its "
                   "@event_handler priority orders disable before enable on a shared event - a wrapper has none and the "
                   "handlers would run in config order: two rules for one switch / coil pair, or the enabled device's rule "
                   "cleared by the late disable); a delayed one goes through the delay wrapper with that method and delay",
                   "registered_directly()")],
         modifies=[], raises={}, bounded="BOUNDED: at most %d control events" % NEV)
    return C
