"""C17 - Shows run on schedule without drift and clean up after themselves.

RunningShow (mpf/assets/show.py) under contract, per operation, for all step tables, speeds, loop counts and states.

Ghost: the event loop's timer handles (live : Handle -> Bool, n_live = number of live handles that call back into THIS
show, now = loop time).  Assumed (A-ASYNCIO): call_at / schedule_once return a fresh live handle; unschedule makes it
dead; a handle that fires is consumed by the loop before the callback runs (so the timer entry points start with
n_live == 0).

Class invariant  T: every live timer of the show is the one in _delay_handler  (n_live == 1 if that handle is live,
else 0);  a stopped show has no live timer and no player with state under its context.

Schedule: _run_next_step hands every player named in the step exactly one show_play_callback with
start_time == next_step_time (the ABSOLUTE planned time, not the time the callback happened to run) and, iff the show
is not manual / paused and the step has a positive duration, schedules exactly one call_at at
next_step_time' = next_step_time + duration / speed.  By induction next_step_time = T0 + sum(duration_j / speed): no
cumulative drift (reals for floats, A-FLOAT).
Clean-up: stop() is idempotent, cancels the timer and calls show_stop_callback(context) once for EVERY player that
was handed a step.
"""
import z3

from pyvc.contract import ContractSet, LoopSpec
from pyvc.vals import *       # noqa
from pyvc.ctx import Unsupported
from pyvc.interp import MISSING
from . import common
from .common import emit, events_named

SH = "mpf/assets/show.py"
H = Opaque("Handle")
PLAYERS = ("lights", "coils")


def build():
    C = ContractSet("C17", "Shows run on schedule without drift and clean up after themselves")
    C.strings = True
    common.declare_events(C)
    C.ghost.update(dict(live=MapS(H, Bool), n_live=Int, now=Real))

    def g(I, name):
        return I.container(I.force(I.read_field(I.ghost, name)).ref)

    def live_of(I, h):
        return z3.Select(g(I, "live").arr, h)

    def set_live(I, h, val):
        v = I.force(I.read_field(I.ghost, "live"))
        c = I.container(v.ref)
        I.set_container(v.ref, DMap(z3.Store(c.arr, h, val), c.dom, c.kshape, c.vshape))

    def bump(I, d):
        n = I.force(I.read_field(I.ghost, "n_live")).t
        I.write_field(I.ghost, "n_live", VInt(n + d))

    def schedule(I, when, cb, kind):
        I.ctx.fresh_n += 1
        h = z3.Const("handle!%d" % I.ctx.fresh_n, usort("Handle"))
        I.ctx.assume(z3.Not(live_of(I, h)))
        set_live(I, h, z3.BoolVal(True))
        bump(I, 1)
        emit(I, "schedule", kind=kind, when=when, callback=cb, handle=VOpaque("Handle", h))
        return VOpaque("Handle", h)

    def call_at(I, env, a, k):
        return schedule(I, k.get("when", a[0] if a else None), k.get("callback", a[1] if len(a) > 1 else None),
                        "call_at")

    def schedule_once(I, env, a, k):
        cb = k.get("callback", a[0] if a else None)
        d = k.get("timeout", a[1] if len(a) > 1 else VInt(0))
        kk, t = I.num(d)
        now = I.force(I.read_field(I.ghost, "now")).t
        return schedule(I, VReal(now + (t if kk == "real" else z3.ToReal(t))), cb, "schedule_once")

    def unschedule(I, env, a, k):
        h = I.force(a[0])
        if h.tag != "opaque":
            I.raise_("AttributeError", "unschedule(%s)" % h.tag)
        was = live_of(I, h.t)
        n = I.force(I.read_field(I.ghost, "n_live")).t
        I.write_field(I.ghost, "n_live", VInt(z3.If(was, n - 1, n)))
        set_live(I, h.t, z3.BoolVal(False))
        emit(I, "unschedule", handle=h)
        return NONE
    A = "asyncio event loop / clock (A-ASYNCIO): fresh live handle per registration; unschedule kills it; a fired " \
        "handle is dead when its callback starts"
    C.cls("Loop", fields={})
    C.ext("Loop.call_at", model=call_at, trusted_reason=A)
    C.cls("Clock", fields=dict(loop=ObjS("Loop")))
    C.ext("Clock.schedule_once", model=schedule_once, trusted_reason=A)
    C.ext("Clock.unschedule", model=unschedule, trusted_reason=A)
    C.ext("Clock.get_time", model=lambda I, env, a, k: I.read_field(I.ghost, "now"), trusted_reason=A)
    C.helpers["now"] = lambda I: I.read_field(I.ghost, "now")

    def handle_live(I, h):
        h = I.force(h)
        if h.tag == "none":
            return VBool(False)
        return VBool(live_of(I, h.t))
    C.helpers["handle_live"] = handle_live

    # ------------------------------------------------------------------ players and steps
    C.cls("ConfigPlayer", fields=dict(pname=Str))

    def play_cb(I, env, a, k):
        emit(I, "play", player=env["self"].ref.name, context=k.get("context"), start_time=k.get("start_time"),
             step=k.get("calling_context"), priority=k.get("priority"))
        return NONE

    def stop_cb(I, env, a, k):
        emit(I, "stop_cb", player=env["self"].ref.name, context=a[0] if a else k.get("context"))
        return NONE
    P = "config player (show_play_callback stores the step's effects under the context key; show_stop_callback " \
        "removes everything stored under it: light_player.clear_context + C09's remove_from_stack_by_key)"
    C.ext("ConfigPlayer.show_play_callback", model=play_cb, trusted_reason=P)
    C.ext("ConfigPlayer.show_stop_callback", model=stop_cb, trusted_reason=P)
    DUR = z3.Function("step_duration", z3.IntSort(), z3.RealSort())
    NPL = z3.Function("step_players", z3.IntSort(), z3.IntSort())     # bit set over PLAYERS
    C.cls("StepList", fields=dict(total=Int))

    def steps_len(I, env, a, k):
        return I.read_field(env["self"].ref, "total")

    def steps_get(I, env, a, k):
        """step i of the table: {'duration': d_i, <player>: settings ...}; which players it names is arbitrary"""
        i = I.force(a[0])
        kk, t = I.num(i)
        tot = I.force(I.read_field(env["self"].ref, "total")).t
        if I.ctx.branch(z3.Or(t < -tot, t >= tot)):
            I.raise_("IndexError", "show step index out of range")
        t = z3.If(t < 0, t + tot, t)
        I.ctx.assume(DUR(t) >= 0)
        ents = [("duration", VReal(DUR(t)))]
        variant = I.ctx.choose([NPL(t) == 0, NPL(t) == 1, NPL(t) == 2, z3.Or(NPL(t) < 0, NPL(t) > 2)])
        if variant == 3:
            from pyvc.ctx import PathAbort
            raise PathAbort("step player sets are 0..2 of %s" % (PLAYERS,))
        for j in range(variant):
            ents.insert(j, (PLAYERS[j], VOpaque("Settings", z3.Const(I.fresh_name("settings"), usort("Settings")))))
        return I.new_dict(ents, I.fresh_name("step"))
    C.ext("StepList.__len__", model=steps_len, trusted_reason="the loaded step table")
    C.ext("StepList.__getitem__", model=steps_get,
          trusted_reason="the loaded step table: every step has a duration >= 0 (show loader) and names 0..2 players")
    C.helpers["duration"] = lambda I, i: VReal(DUR(I.force(i).t))
    C.helpers["n_step_players"] = lambda I, i: VInt(NPL(I.force(i).t))

    def ev_list(I, name):
        """an events_when_* list: None, or one event name"""
        if I.ctx.fork(2) == 0:
            return NONE
        return I.new_list([VStr(name.split(".")[-1] + "_evt")], name)
    CFG = ObjS("ShowConfig", name=Str, priority=Int, speed=Real, loops=Int, sync_ms=Int, manual_advance=Bool,
               show_tokens=Opaque("Tokens"),
               **{"events_when_" + e: Init(ev_list) for e in ("played", "stopped", "looped", "paused", "resumed",
                                                              "advanced", "stepped_back", "updated", "completed")})
    C.cls("ShowConfig", fields=CFG.fields)
    C.cls("Show", fields=dict(name=Str))
    C.cls("ShowController", fields=dict(show_players=Rec(**{p: ObjS("ConfigPlayer", pname=Const(p)) for p in PLAYERS})))
    C.ext("ShowController.debug_log", model=common.noop, trusted_reason="logging")

    def players_init(I, name):
        full = I.frames[0].fc is not None and I.frames[0].fc.key in ("RunningShow.stop",)
        m = I.ctx.fork(4) if full else (0, 1)[I.ctx.fork(2)]
        return I.new_set([VStr(p) for j, p in enumerate(PLAYERS) if m & (1 << j)], name)

    def opt_cb(I, name):
        return NONE if I.ctx.fork(2) == 0 else VOpaque("Fn", z3.Const(name, usort("Fn")))
    C.cls("RunningShow", file=SH, fields=dict(
        machine=ObjS("MachineController", clock=ObjS("Clock"), events=ObjS("EventManager"),
                     show_controller=ObjS("ShowController")),
        show=ObjS("Show"), show_steps=ObjS("StepList"), show_config=CFG, callback=Init(opt_cb),
        start_callback=Init(opt_cb), start_step=Int, start_running=Bool, _delay_handler=Opt(H),
        next_step_index=Int, current_step_index=Opt(Int), next_step_time=Real, name=Str, loops=Int, id=Int,
        _players=Init(players_init), debug=Bool, _stopped=Bool, _total_steps=Int, context=Str),
        invariants=[
            ("T: every live timer of this show is the one in _delay_handler",
             "ghost.n_live == (1 if handle_live(self._delay_handler) else 0)"),
            ("Z: a stopped show has no live timer and no player holding state under its context",
             "implies(self._stopped, ghost.n_live == 0 and len(self._players) == 0)"),
            ("the step table", "self._total_steps == len(self.show_steps) and self._total_steps >= 1 and "
                               "self.show_config.speed > 0"),
        ])
    C.globals["callable"] = VFn("model", model=lambda I, a, k: VBool(I.force(a[0]).tag in ("fn", "opaque")))

    def on_cb(I, fn, args, kwargs):
        return NONE
    C.helpers["on_opaque_call"] = on_cb


    def cnt(name, **flt):
        def h(I, *a):
            out = [e for e in events_named(I, name)]
            return VInt(len(out))
        return h
    C.helpers["n_play"] = cnt("play")
    C.helpers["n_stop_cb"] = cnt("stop_cb")
    C.helpers["n_sched"] = cnt("schedule")
    C.helpers["n_unsched"] = cnt("unschedule")
    C.helpers["n_callbacks"] = cnt("callback")

    def n_posted(I, name):
        nm = I.pyconst(I.force(name))
        return VInt(len([e for e in events_named(I, "post") if I.pyconst(I.force(e.args["event"])) == nm]))
    C.helpers["n_posted"] = n_posted
    C.helpers["n_posts"] = cnt("post")

    def plays_at(I, t, ctx, step):
        """every show_play_callback of this call carries start_time == t, this show's context and the step index"""
        return VBool(z3.And(*[z3.And(I.eq(e.args["start_time"], t), I.eq(e.args["context"], ctx),
                                     I.eq(e.args["step"], step)) for e in events_named(I, "play")]
                            + [z3.BoolVal(True)]))
    C.helpers["plays_at"] = plays_at

    def players_played(I):
        """the players handed a step in this call, as a python set"""
        return {e.args["player"].split(".")[-1] for e in events_named(I, "play")}

    def played_are_tracked(I):
        this = I.frames[0].env["self"].ref
        cur = {I.pyconst(x) for x in I.container(I.force(I.read_field(this, "_players")).ref).items}
        return VBool(players_played(I) <= cur)
    C.helpers["played_are_tracked"] = played_are_tracked

    def each_player_once(I):
        names = [e.args["player"] for e in events_named(I, "play")]
        return VBool(len(names) == len(set(names)))
    C.helpers["each_player_once"] = each_player_once

    def stopped_all(I):
        """show_stop_callback(context) exactly once for every player that was in _players at entry"""
        this = I.frames[0].env["self"].ref
        old = {I.pyconst(x) for x in I.container(I.force(I.read_field(this, "_players", heap=I.old_heap)).ref,
                                                 heap=I.old_heap).items}
        ctx = I.read_field(this, "context")
        got = [e.args["player"].split(".")[-1] for e in events_named(I, "stop_cb")]
        ok = sorted(got) == sorted(old)
        return VBool(z3.And(z3.BoolVal(ok), *[I.eq(e.args["context"], ctx) for e in events_named(I, "stop_cb")]))
    C.helpers["stopped_all_players"] = stopped_all

    def sched_at(I, t):
        evs = events_named(I, "schedule")
        if len(evs) != 1:
            return VBool(False)
        e = evs[0]
        cb = I.force(e.args["callback"])
        ok = cb.tag == "fn" and cb.kind == "bound" and cb.name == "_run_next_step"
        return VBool(z3.And(z3.BoolVal(ok), I.eq(e.args["when"], t)))
    C.helpers["scheduled_next_step_at"] = sched_at

    def start_callback_ran(I, cb):
        evs = [e for e in events_named(I, "callback") if z3.is_true(z3.simplify(I.eq(e.args["fn"], cb)))]
        return VBool(len(evs) == 1)
    C.helpers["start_callback_ran"] = start_callback_ran
    C.trace_helpers = {"n_play", "n_stop_cb", "n_sched", "n_unsched", "n_posted", "n_posts", "plays_at",
                       "played_are_tracked", "each_player_once", "stopped_all_players", "scheduled_next_step_at",
                       "n_callbacks", "start_callback_ran"}

    C.fn("RunningShow._post_events", inline=True, no_inv=True)
    C.fn("RunningShow._remove_delay_handler",
         ensures=[("the pending timer (if any) is cancelled and forgotten",
                   "self._delay_handler is None and ghost.n_live == 0")],
         modifies=["self._delay_handler", "ghost.live", "ghost.n_live"], raises={}, inline_calls=True)
    MODS = ["self._delay_handler", "self.next_step_index", "self.current_step_index", "self.next_step_time",
            "self.loops", "self._players", "self._stopped", "self.start_callback", "ghost.live", "ghost.n_live"]
    CUR = "(self.current_step_index if self.current_step_index is not None else -1)"     # None: not started yet
    STEP_DT = "(duration(" + CUR + ") / self.show_config.speed)"
    WILL_SCHEDULE = "(not self.show_config.manual_advance and " + STEP_DT + " > 0 and not pause_after_step)"
    COMPLETES = "(old(self.next_step_index) >= self._total_steps and old(self.loops) == 0)"
    INV_SC = ("INV-SC: a start callback that has not run yet belongs to a show whose start is still pending (established by "
              "_start_play, kept by every request - WS -, consumed by _start_now)",
              "implies(self.start_callback is not None and not self._stopped, ghost.n_live == 1 and "
              "self._delay_handler is not None)")
    C.fn("RunningShow.stop",
         loops={0: LoopSpec(invariant=[], unroll=True)},
         requires=[INV_SC],
         ensures=[("stopped", "self._stopped"),
                  ("C1: stop is idempotent: a stopped show does nothing more",
                   "implies(old(self._stopped), n_stop_cb() == 0 and n_posts() == 0 and n_callbacks() == 0)"),
                  ("C2: every player that was handed a step gets show_stop_callback(context) exactly once",
                   "implies(not old(self._stopped), stopped_all_players())"),
                  ("C3: the pending step is cancelled", "ghost.n_live == 0 and self._delay_handler is None or "
                   "old(self._stopped)"),
                  ("C5: a show stopped before its (synchronised) start still runs its start callback - it stops the show this "
                   "one was to replace - exactly once (INV-SC: such a show still has its start pending)",
                   "implies(not old(self._stopped) and old(self.start_callback) is not None, "
                   "start_callback_ran(old(self.start_callback)) and self.start_callback is None)"),
                  ("C4: the stopped events are posted once",
                   "implies(not old(self._stopped) and self.show_config.events_when_stopped is not None, "
                   "n_posted('events_when_stopped_evt') == 1)")],
         modifies=MODS, raises={}, inline_calls=True)
    IDLE = "old(self._stopped)"
    LIVE = "(not old(self._stopped))"
    SAME = ("self.next_step_index == old(self.next_step_index) and self.next_step_time == old(self.next_step_time) "
            "and self.loops == old(self.loops) and self._stopped")
    S2 = ("S2 loop count: a finite loop counter goes down by one per wrap, an endless show wraps for free",
          "implies(" + LIVE + " and old(self.next_step_index) >= self._total_steps and old(self.loops) != 0, " + CUR +
          " == 0 and self.loops == (old(self.loops) - 1 if old(self.loops) > 0 else old(self.loops)))")
    S5 = ("S5: the step index advances by one", "implies(" + LIVE + " and not " + COMPLETES + ", self.next_step_index == "
          + CUR + " + 1 and 0 <= " + CUR + " < self._total_steps and not self._stopped)")
    S6 = ("S6: the planned time moves by duration / speed iff the show advances by itself",
          "implies(" + LIVE + " and not " + COMPLETES + ", self.next_step_time == (old(self.next_step_time) + " + STEP_DT +
          " if " + WILL_SCHEDULE + " else old(self.next_step_time)))")
    S7 = ("S7: afterwards exactly the one planned step is pending - or none",
          "ghost.n_live == (1 if (" + LIVE + " and not " + COMPLETES + " and " + WILL_SCHEDULE + ") else 0)")
    S8 = ("S8: the start callback is only ever consumed", "self.start_callback is None or self.start_callback == "
          "old(self.start_callback)")
    S0s = ("S0: a stopped show stays exactly as it is", "implies(" + IDLE + ", " + SAME + ")")
    S1s = ("S1: completion stops the show", "implies(" + LIVE + " and " + COMPLETES + ", self._stopped)")
    C.fn("RunningShow._run_next_step", params=dict(post_events=Init(ev_list), pause_after_step=Bool),
         requires=[("P0: no step is pending when a step is run (the timer that fired is consumed; manual callers "
                    "cancel first)", "ghost.n_live == 0")],
         loops={0: LoopSpec(invariant=[], unroll=True)},
         ensures=[
             ("S0: a stopped or completed show cannot be revived: no player is handed a step, nothing is scheduled, "
              "nothing is posted",
              "implies(" + IDLE + ", n_play() == 0 and n_sched() == 0 and n_posts() == 0 and " + SAME + ")"),
             ("S1 completion: after the last step with no loops left the show stops, posts its completed events once "
              "and schedules nothing",
              "implies(" + LIVE + " and " + COMPLETES + ", self._stopped and n_sched() == 0 and n_play() == 0 and "
              "(self.show_config.events_when_completed is None or n_posted('events_when_completed_evt') == 1))"),
             S2,
             ("S3 schedule: every player named in the step gets exactly one play callback carrying the PLANNED time "
              "of the step, this show's context and the step number, and is remembered for clean-up",
              "implies(" + LIVE + " and not " + COMPLETES + ", n_play() == n_step_players(" + CUR + ") and "
              "each_player_once() and plays_at(old(self.next_step_time), self.context, " + CUR + ") and "
              "played_are_tracked())"),
             ("S4 no drift: the next step is planned at the previous planned time plus duration / speed, and exactly "
              "one timer is set for exactly that time - iff the show advances by itself",
              "implies(" + LIVE + " and not " + COMPLETES + ", (self.next_step_time == old(self.next_step_time) + " +
              STEP_DT + " and scheduled_next_step_at(self.next_step_time)) if " + WILL_SCHEDULE + " else "
              "(n_sched() == 0 and self.next_step_time == old(self.next_step_time)))"),
             S5, S7, S8,
         ],
         call_ensures=[S0s, S1s, S2, S5, S6, S7, S8],
         modifies=MODS, raises={}, emits=lambda I, env, res: None)
    STAY = ("a stopped show stays stopped: nothing is scheduled", "implies(old(self._stopped), self._stopped and "
            "ghost.n_live == 0)")
    C.fn("RunningShow._start_now",
         requires=[("timer entry point: the timer that fired is consumed", "ghost.n_live == 0")],
         ensures=[("the start callback is called once and forgotten", "self.start_callback is None"),
                  ("a show that starts paused does not schedule its second step",
                   "implies(not self.start_running and not old(self._stopped), ghost.n_live == 0)")],
         modifies=MODS, raises={}, emits=lambda I, env, res: None)
    C.finite_checks.append(common.native_demo_check("c17_two_tokens_in_one_key.py", "a show whose step key contains two tokens (led_(row)_(col)) can be played"))
    C.finite_checks.append(common.native_demo_check(
        "c17_request_before_synced_start.py",
        "an advance / resume / pause request on a show that waits for its sync point does not cancel its start"))
    C.finite_checks.append(common.native_demo_check(
        "c17_first_step_time_0s.py", "a show whose first step time is written '0s' runs and completes on schedule"))
    WAITING = "(old(self.current_step_index) is None and not old(self._stopped))"
    WS = ("WS: a show that is still waiting for its (synchronised) start keeps it: a pause / resume / advance / step_back "
          "request before the first step does nothing - it must not cancel the pending start (the show would start off the "
          "sync grid, without its played events and without stopping the show it replaces)",
          "implies(" + WAITING + ", self._delay_handler is old(self._delay_handler) and ghost.n_live == old(ghost.n_live) "
          "and n_play() == 0 and n_posts() == 0 and self.start_callback == old(self.start_callback) and "
          "self.current_step_index is None)")
    C.fn("RunningShow.pause",
         ensures=[("paused: no step is pending", "implies(not " + WAITING + ", ghost.n_live == 0 and "
                                                 "self._delay_handler is None)"),
                  ("no player is touched", "n_play() == 0 and n_stop_cb() == 0"), WS],
         modifies=["self._delay_handler", "ghost.live", "ghost.n_live"], raises={})
    C.fn("RunningShow.resume",
         ensures=[STAY, WS], modifies=MODS, raises={})
    C.fn("RunningShow.advance", params=dict(steps=Int, show_step=Opt(Int)),
         requires=[("a target step is a step number", "show_step is None or show_step >= 0")],
         ensures=[STAY, WS], modifies=MODS, raises={})
    C.fn("RunningShow.step_back", params=dict(steps=Int), ensures=[STAY, WS], modifies=MODS, raises={})
    GRID = (250, 1000, 333)

    def on_grid(I, t, sync):
        """t (seconds) is an exact multiple of sync (ms) - for the sync intervals of the bounded precondition"""
        tt, sy = I.num(t)[1], I.force(sync).t
        if I.num(t)[0] == "int":
            tt = z3.ToReal(tt)
        cases = []
        for v in GRID:
            q = tt * 1000 / v
            cases.append(z3.And(sy == v, q == z3.ToReal(z3.ToInt(q))))
        return VBool(z3.Or(cases))
    C.helpers["on_grid"] = on_grid
    def sync_choice(I, name):
        return VInt(((0,) + GRID)[I.ctx.fork(len(GRID) + 1)])
    CFG_SYNC = ObjS("ShowConfig", **dict(CFG.fields, sync_ms=Init(sync_choice)))
    C.fn("RunningShow._start_play", params=dict(self=ObjS("RunningShow", show_config=CFG_SYNC)),
         requires=[("called once from the constructor: nothing is scheduled yet",
                    "ghost.n_live == 0 and self._delay_handler is None"),
                   ("BOUNDED: the sync interval is 0 (none) or one of %s ms (the grid arithmetic is nonlinear in a "
                    "symbolic interval)" % (GRID,), "self.show_config.sync_ms in (0,) + %r" % (GRID,)),
                   ("sync interval is not negative", "self.show_config.sync_ms >= 0"),
                   ("a loaded show has at least one step", "len(self.show_steps) >= 1 and self.show_config.speed > 0"),
                   ("nobody holds state yet", "len(self._players) == 0 and not self._stopped")],
         ensures=[INV_SC, ("a synchronised show starts on the next multiple of sync_ms and only there",
                   "implies(self.show_config.sync_ms != 0, n_sched() == 1 and n_play() == 0)"),
                  ("Y1: the planned start of a synchronised show lies EXACTLY on the sync grid (shows with the same "
                   "sync_ms requested at different instants start together), at the first grid point after the request",
                   "implies(self.show_config.sync_ms != 0, on_grid(self.next_step_time, self.show_config.sync_ms) and "
                   "old(self.next_step_time) < self.next_step_time and self.next_step_time <= "
                   "old(self.next_step_time) + self.show_config.sync_ms / 1000.0)"),
                  ("start step: k > 0 starts at step k (index k-1), k < 0 counts from the end, 0 is the first step",
                   "implies(self.show_config.sync_ms != 0, self.next_step_index == (self.start_step - 1 if "
                   "self.start_step > 0 else (self.start_step % self._total_steps if self.start_step < 0 else 0)))")],
         modifies=MODS + ["self._total_steps"], raises={}, no_inv=True)
    C.assume("A-FLOAT next_step_time and durations are reals; float summation error of the absolute schedule is not "
             "modelled")
    C.assume("a step names 0..2 of the players (lights, coils): the per-step contract is the same for any player; "
             "event lists hold at most one event; update() (show_config._replace) is not under contract")
    C.assume("clean-up beyond the call of show_stop_callback(context) for every player is the players' clear_context "
             "(light stack removal is C09's remove_from_stack_by_key contract); other players are A-UNMODELLED")
    return C


def build_extra():
    """clean-up of a stopped show on a light: show_stop_callback -> light_player.clear_context ->
    Light.remove_from_stack_by_key(context key); the light-stack contracts of C09 re-checked here"""
    from . import C09
    c = C09.build()
    c.pid = "C17l"
    c.only_verify = ["Light.remove_from_stack_by_key", "Light._remove_fade_out", "Light._remove_from_stack_by_key"]
    return [c, show_player_set(), replace_set(), config_set()]


SHOWC = "mpf/core/show_controller.py"


def replace_set():
    """ShowController.replace_or_advance_show: a synchronised show that replaces a running one takes it over AT the sync
    point - the old show is stopped by the new show's start callback, never at once, however far the old one got"""
    C = ContractSet("C17r", "a synced replacement stops its predecessor at the sync point")
    C.strings = False
    C.cls("MpfController", fields={})
    CFG = ObjS("ShowConfigI", sync_ms=Int, events_when_played=Opt(Opaque("Events")),
               events_when_stopped=Opt(Opaque("Events")), manual_advance=Bool, name=Str)
    C.cls("ShowConfigI", fields=CFG.fields)

    def old_config(I, name):
        """the old instance runs the SAME config object as the new request, or another one"""
        if I.ctx.fork(2) == 0:
            return I.frames[0].env["config"]
        return I.fresh(CFG, name)
    C.cls("RunningShowI", fields=dict(stopped=Bool, show_config=Init(old_config), current_step_index=Opt(Int)))
    C.ext("RunningShowI.stop", model=lambda I, env, a, k: (emit(I, "old.stop", show=env["self"].ref), NONE)[1],
          trusted_reason="RunningShow.stop (C17 main set)")
    C.ext("RunningShowI.advance", model=lambda I, env, a, k: (emit(I, "old.advance"), NONE)[1],
          trusted_reason="RunningShow.advance (C17 main set)")
    C.cls("ShowI", fields={})

    def play(I, env, a, k):
        emit(I, "play", kwargs=dict(k))
        return I.fresh(ObjS("RunningShowI"), I.fresh_name("new_show"))
    C.ext("ShowI.play_with_config", model=play, trusted_reason="Show.play_with_config: creates the RunningShow (C17 main set)")
    C.cls("ShowsI", fields={})
    C.ext("ShowsI.__getitem__", model=lambda I, env, a, k: I.fresh(ObjS("ShowI"), I.fresh_name("show")),
          trusted_reason="machine.shows lookup (a missing show raises KeyError: not modelled)")
    C.cls("ShowController", file=SHOWC, bases=["MpfController"], fields=dict(
        machine=ObjS("MachineController", shows=ObjS("ShowsI"))))

    def takeover_ok(I, old_instance, config):
        plays = events_named(I, "play")
        stops = events_named(I, "old.stop")
        if len(plays) != 1:
            return VBool(False)
        kw = plays[0].args["kwargs"]
        cb = kw.get("start_callback", NONE)
        cbf = I.force(cb)
        old = I.force(old_instance).ref
        sync = I.force(I.read_field(I.force(config).ref, "sync_ms")).t
        by_callback = cbf.tag == "fn" and cbf.kind == "bound" and cbf.name == "stop" and cbf.obj is old
        names = [e.name for e in I.cur_trace() if e.name in ("old.stop", "play")]
        return VBool(z3.If(sync != 0, z3.BoolVal(by_callback and len(stops) == 0),
                           z3.BoolVal(cbf.tag == "none" and names == ["old.stop", "play"])))
    C.helpers["takeover_ok"] = takeover_ok
    C.helpers["n_plays"] = lambda I: VInt(len(events_named(I, "play")))
    C.trace_helpers = {"takeover_ok", "n_plays"}
    C.fn("ShowController.replace_or_advance_show",
         params=dict(old_instance=ObjS("RunningShowI"), config=CFG, start_step=Opt(Int), start_time=Opt(Real),
                     start_running=Bool, stop_callback=Opt(Fn)),
         requires=[("the old show is running", "not old_instance.stopped")],
         ensures=[("RS1: whenever a new show is started in place of a running one, a synchronised replacement (sync_ms) "
                   "hands the old show's stop to the new show as its start callback - the old show keeps playing until the "
                   "sync point, also when it has not played a step yet - and an unsynchronised one stops it first",
                   "implies(n_plays() == 1, takeover_ok(old_instance, config))")],
         modifies=[], raises={})
    return C


def config_set():
    """what a show is played WITH is what was asked for: create_show_config keeps every explicit setting (an explicit
    sync_ms of 0 = 'start at once' is not the machine default), and a show pool hands every play argument - the start
    callback that stops a replaced show included - on to the show it picks"""
    C = ContractSet("C17c", "show configs and pools pass on what was asked for")
    C.cls("MpfController", fields={})
    C.namedtuple(SH, "ShowConfig")
    C.cls("ShowController", file=SHOWC, bases=["MpfController"], fields=dict(
        machine=ObjS("MachineController", config=Rec(mpf=Rec(default_show_sync_ms=Int)))))
    EV = Opt(Opaque("Events"))
    C.fn("ShowController.create_show_config",
         params=dict(name=Str, priority=Int, speed=Real, loops=Int, sync_ms=Opt(Int), manual_advance=Bool,
                     show_tokens=Opt(Opaque("Tokens")), events_when_played=EV, events_when_stopped=EV, events_when_looped=EV,
                     events_when_paused=EV, events_when_resumed=EV, events_when_advanced=EV, events_when_stepped_back=EV,
                     events_when_updated=EV, events_when_completed=EV),
         ensures=[("CF1: an explicit sync_ms - 0 included: 'start immediately, no grid' - is the show's sync_ms; only a "
                   "show WITHOUT one gets the machine default",
                   "result.sync_ms == (sync_ms if sync_ms is not None else "
                   "self.machine.config['mpf']['default_show_sync_ms'])"),
                  ("CF2: speed, loops, priority, manual advance, tokens and event lists are the requested ones",
                   "result.name == name and result.priority == priority and result.speed == speed and "
                   "result.loops == loops and result.manual_advance == manual_advance and "
                   "result.show_tokens is show_tokens and result.events_when_played is events_when_played and "
                   "result.events_when_stopped is events_when_stopped and result.events_when_looped is events_when_looped "
                   "and result.events_when_completed is events_when_completed")],
         modifies=[], raises={})

    def play(I, env, a, k):
        names = ["show_config", "start_time", "start_running", "start_callback", "stop_callback", "start_step"]
        got = dict(zip(names, a))
        got.update(k)
        emit(I, "play", kwargs=got)
        return I.fresh(ObjS("RunningShowI"), I.fresh_name("running"))
    C.cls("RunningShowI", fields={})
    C.cls("ShowI", fields={})
    C.ext("ShowI.play_with_config", model=play, trusted_reason="Show.play_with_config (C17 main set)")
    C.cls("AssetPool", fields={})
    C.cls("ShowPool", file=SH, bases=["AssetPool"], fields=dict(chosen=ObjS("ShowI")), check_bases=False)
    C.ext("ShowPool.asset", model=lambda I, env, a, k: I.read_field(env["self"].ref, "chosen"), is_property=True,
          trusted_reason="AssetPool.asset: picks the next show of the pool")

    def forwarded(I, *vals):
        plays = events_named(I, "play")
        if len(plays) != 1:
            return VBool(False)
        kw = plays[0].args["kwargs"]
        names = ["show_config", "start_time", "start_running", "start_callback", "stop_callback", "start_step"]
        return VBool(z3.And([I.eq(kw.get(n, NONE), v) if not (I.force(v).tag == "fn" or I.force(kw.get(n, NONE)).tag == "fn")
                             else z3.BoolVal(I.force(kw.get(n, NONE)) is I.force(v) or
                                             (I.force(kw.get(n, NONE)).tag == I.force(v).tag and
                                              bool(z3.is_true(z3.simplify(I.eq(kw.get(n, NONE), v))))))
                             for n, v in zip(names, vals)]))
    C.helpers["forwarded"] = forwarded
    C.trace_helpers = {"forwarded"}
    C.fn("ShowPool.play_with_config",
         params=dict(show_config=Opaque("ShowConfigO"), start_time=Opt(Real), start_running=Bool, start_callback=Opt(Fn),
                     stop_callback=Opt(Fn), start_step=Opt(Int)),
         ensures=[("PL1: the show picked from the pool is played with EVERY argument of the request: config, start time, "
                   "running flag, start callback (it stops the show this one replaces at the sync point), stop callback "
                   "and start step", "forwarded(show_config, start_time, start_running, start_callback, stop_callback, "
                                     "start_step)")],
         modifies=[], raises={})
    return C


SP = "mpf/config_players/show_player.py"


def show_player_set():
    """a show started from a show step / event runs at  configured priority + caller priority  EVERY time: the player
    must not write the sum back into the (shared, re-used) configuration"""
    C = ContractSet("C17p", "show player leaves its configuration untouched")
    C.strings = False
    C.cls("DeviceConfigPlayer", fields={})
    C.cls("Clock", fields={})
    C.ext("Clock.get_time", model=lambda I, env, a, k: VReal(z3.Real(I.fresh_name("now"))), trusted_reason="clock")
    C.cls("Cond", fields={})
    C.ext("Cond.evaluate", model=lambda I, env, a, k: VBool(z3.Bool(I.fresh_name("cond"))),
          trusted_reason="condition template (C16)")
    C.cls("ShowKey", fields=dict(name=Str, condition=Opt(ObjS("Cond"))))
    C.cls("ShowPlayer", file=SP, bases=["DeviceConfigPlayer"],
          fields=dict(machine=ObjS("MachineController", clock=ObjS("Clock"))))
    NSH = common.bound(1, 2)

    def settings(I, name):
        ents = []
        for i in range(I.ctx.fork(NSH + 1)):
            key = I.fresh(ObjS("ShowKey"), "%s.show%d" % (name, i))
            prio = VInt(z3.Int("%s[show%d][priority]" % (name, i)))
            if I.ctx.fork(2) == 0:
                val = I.new_dict((("priority", prio), ("hold", NONE)))
            else:
                val = I.new_dict((("hold", NONE),))       # a hand-built config without a priority
            ents.append((key, val))
        I.__dict__["c17_settings"] = ents
        return I.new_dict(tuple(ents))

    def update_show(I, env, a, k):
        ss = I.force(a[1])
        c = I.container(ss.ref)
        emit(I, "update_show", show=a[0], settings_ref=ss.ref, priority=c.get("priority"))
        return NONE
    C.ext("ShowPlayer._update_show", model=update_show,
          trusted_reason="ShowPlayer._update_show: dispatches the action (play/stop/...) with these settings")

    def config_untouched(I):
        """every settings dict handed in still has exactly its entries (priority included)"""
        cs = []
        for key, val in I.__dict__.get("c17_settings", []):
            old = dict(I.container(val.ref, heap=I.old_heap).entries)
            new = dict(I.container(val.ref).entries)
            if sorted(old) != sorted(new):
                return VBool(False)
            cs += [I.eq(old[k_], new[k_]) for k_ in old]
        return VBool(z3.And(cs + [z3.BoolVal(True)]))
    C.helpers["config_untouched"] = config_untouched

    def priorities_added(I, priority):
        """each show that is dispatched gets  configured priority (0 if none) + caller priority"""
        ents = I.__dict__.get("c17_settings", [])
        by_name = {id(I.force(k).ref): v for k, v in ents}
        cs = []
        for e in events_named(I, "update_show"):
            # find the settings this dispatch belongs to through the show name
            src = None
            for k, v in ents:
                if z3.is_true(z3.simplify(I.eq(I.read_field(I.force(k).ref, "name"), e.args["show"]))):
                    src = v
            if src is None:
                return VBool(False)
            old = dict(I.container(src.ref, heap=I.old_heap).entries)
            base = I.force(old["priority"]).t if "priority" in old else z3.IntVal(0)
            got = e.args["priority"]
            p = I.force(priority).t
            if got is None:
                cs.append(z3.And(p == 0, z3.BoolVal("priority" not in old)))
            else:
                cs.append(I.force(got).t == base + p)
        return VBool(z3.And(cs + [z3.BoolVal(True)]))
    C.helpers["priorities_added"] = priorities_added
    C.trace_helpers = {"priorities_added"}
    C.fn("ShowPlayer.play", params=dict(settings=Init(settings), context=Str, calling_context=Str, priority=Int,
                                        kwargs=Init(lambda I, name: I.new_dict(()))),
         loops={0: LoopSpec(invariant=[], unroll=True)},
         ensures=[("X1: the configuration handed to the player (the show step / show_player entry that is re-used on "
                   "every loop and every event) is NOT modified", "config_untouched()"),
                  ("X2: every show is dispatched with configured priority + caller priority",
                   "priorities_added(priority)")],
         modifies=[], raises={"AssertionError": True}, skip_frame=True,
         bounded="BOUNDED: at most %d shows in the entry; no event kwargs" % NSH)
    return C
