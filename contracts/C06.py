"""C06 - Game lifecycle: turns, balls and lifecycle events are well-formed.

Every lifecycle coroutine of modes/game/code/game.py is verified against the fixed word of events it must post, with
the right player / ball numbers, and the game loop ``Game._run`` against a per-iteration contract over the callee
contracts (a caller is checked against the callee's contract, not its body):

    _start_player_turn   player_turn_will_start . player_turn_starting(queue) . [ball += 1] . player_turn_started
    _start_ball          ball_will_start . ball_starting(queue) . [balls_in_play = 1] . ball_started .
                         single_|multi_player_ball_started (. player_N_ball_started) . ball_start_target(relay)
    _end_ball            [balls_in_play = 0] . ball_will_end . ball_ending(queue) . ball_ended
    _end_player_turn     player_turn_will_end . player_turn_ending(queue) . player_turn_ended
    _start_game/_end_game  game_will_start . game_starting(queue) . game_started / game_will_end . game_ending . game_ended
    one loop iteration   turn_start . ball . (extra ball)* . turn_end . [rotate]       for ONE player
    rotation             the next player in order (number + 1, wrapping to 1)

Every ``await`` of an event post is a point where handlers run: they may request the end of the ball / game, tilt,
award extra balls or add players (rely, see ``rely`` below).  Liveness of the awaited queue events is not decided.
"""
import z3

from pyvc.contract import ContractSet, LoopSpec
from pyvc.vals import *       # noqa
from pyvc.ctx import Unsupported
from pyvc.interp import MISSING
from . import common
from .common import emit, events_named

GAME = "mpf/modes/game/code/game.py"


def build():
    C = ContractSet("C06", "Game lifecycle: turns, balls and lifecycle events are well-formed")
    C.strings = False

    # ------------------------------------------------------------------ environment (rely) and event posting
    def game_of(I):
        return I.frames[0].env["self"].ref

    def rely(I):
        """handlers that run while the game awaits an event may: request the game end (ending: False -> True), slam
        tilt (False -> True), change the current player's extra balls (>= 0), add players (the list only grows),
        change balls in play within [0, balls known] and set the end-of-ball flag.  They never change the current
        player, a player's number or ball counter."""
        saved_mod = I.modified
        I.modified = set()
        try:
            g = game_of(I)
            for f, mono in (("ending", True), ("slam_tilted", True)):
                old = I.truth(I.read_field(g, f))
                I.havoc_field(g, f)
                I.ctx.assume(z3.Implies(old, I.truth(I.read_field(g, f))))
            pl = I.force(I.read_field(g, "player"))
            if pl.tag == "obj":
                I.havoc_field(pl.ref, "extra_balls")
                I.ctx.assume(I.force(I.read_field(pl.ref, "extra_balls")).t >= 0)
            lst = I.force(I.read_field(g, "player_list")).ref
            n0 = I.force(I.read_field(lst, "n")).t
            I.havoc_field(lst, "n")
            I.ctx.assume(I.force(I.read_field(lst, "n")).t >= n0)
            np0 = I.force(I.read_field(g, "num_players"))
            I.havoc_field(g, "num_players")
            I.ctx.assume(I.force(I.read_field(g, "num_players")).t == I.force(I.read_field(lst, "n")).t)
            known = I.force(I.read_field(I.force(I.read_field(I.force(I.read_field(g, "machine")).ref,
                                                              "ball_controller")).ref, "num_balls_known")).t
            I.havoc_field(g, "_balls_in_play")
            b = I.force(I.read_field(g, "_balls_in_play")).t
            I.ctx.assume(z3.And(b >= 0, b <= known))
            ev = I.force(I.read_field(g, "_end_ball_event"))
            if ev.tag == "obj":
                f0 = I.truth(I.read_field(ev.ref, "flag"))
                I.havoc_field(ev.ref, "flag")
                I.ctx.assume(z3.Implies(f0, I.truth(I.read_field(ev.ref, "flag"))))   # handlers only SET the flag
        finally:
            I.rely_modified |= I.modified
            I.modified = saved_mod

    def post(kind, awaited):
        def m(I, env, a, k):
            ev = k.get("event", a[0] if a else NONE)
            emit(I, "post", kind=kind, event=ev, callback=k.get("callback", NONE),
                 kwargs={x: v for x, v in k.items() if x not in ("event", "callback")})
            if awaited and "self" in I.frames[0].env and I.frames[0].env["self"].ref.cls == "Game":
                rely(I)
            if kind == "post_relay_async":
                return I.new_dict([("target", VStr(z3.String(I.fresh_name("target"))))])
            return NONE
        return m
    C.cls("EventManager", fields={})
    for k_, aw in (("post", False), ("post_queue", False), ("post_boolean", False), ("post_async", True),
                   ("post_queue_async", True), ("post_relay_async", True)):
        C.ext("EventManager." + k_, model=post(k_, aw),
              trusted_reason="event posting (C01/C02); the awaited variants return after all handlers have run (rely)")
    C.ext("EventManager.remove_handler", model=lambda I, env, a, k: (emit(I, "remove_handler", handler=a[0]), NONE)[1],
          trusted_reason="EventManager.remove_handler (C01)")
    C.cls("AsyncEvent", fields=dict(flag=Bool))

    def ev_set(I, env, a, k):
        I.write_field(env["self"].ref, "flag", VBool(True))
        emit(I, "flag.set", ev=env["self"].ref.name)
        return NONE

    def ev_clear(I, env, a, k):
        I.write_field(env["self"].ref, "flag", VBool(False))
        emit(I, "flag.clear", ev=env["self"].ref.name)
        return NONE

    def ev_wait(I, env, a, k):
        """returns once the flag is set; while suspended handlers run (rely) and someone sets the flag"""
        if not I.ctx.branch(I.truth(I.read_field(env["self"].ref, "flag"))):
            if "self" in I.frames[0].env and I.frames[0].env["self"].ref.cls == "Game":
                g = I.frames[0].env["self"].ref
                emit(I, "flag.suspend", ev=env["self"].ref.name, ending=I.read_field(g, "ending"),
                     adding=I.read_field(g, "_player_add_in_progress"))
                rely(I)
            I.write_field(env["self"].ref, "flag", VBool(True))
        emit(I, "flag.waited", ev=env["self"].ref.name)
        return VBool(True)
    A = "asyncio.Event (A-ASYNCIO)"
    C.ext("AsyncEvent.set", model=ev_set, trusted_reason=A)
    C.ext("AsyncEvent.clear", model=ev_clear, trusted_reason=A)
    C.ext("AsyncEvent.wait", model=ev_wait, trusted_reason=A)
    C.ext("AsyncEvent.is_set", model=lambda I, env, a, k: I.read_field(env["self"].ref, "flag"), trusted_reason=A)

    # ------------------------------------------------------------------ players
    C.cls("Player", fields=dict(number=Int, index=Int, ball=Int, extra_balls=Int, score=Int))
    C.cls("PlayerList", fields=dict(n=Int))

    def pl_get(I, env, a, k):
        """G2: the list holds the players in order: entry i is player number i + 1"""
        kk, t = I.num(a[0])
        n = I.force(I.read_field(env["self"].ref, "n")).t
        if I.ctx.branch(z3.Or(t < -n, t >= n)):
            I.raise_("IndexError", "player_list index out of range")
        t = z3.If(t < 0, t + n, t)
        I.creating_new += 1
        try:
            p = I.fresh(ObjS("Player", C.classes["Player"].fields), I.fresh_name("player_list[i]"))
        finally:
            I.creating_new -= 1
        I.ctx.assume(z3.And(I.force(I.read_field(p.ref, "number")).t == t + 1,
                            I.force(I.read_field(p.ref, "index")).t == t,
                            I.force(I.read_field(p.ref, "ball")).t >= 0,
                            I.force(I.read_field(p.ref, "extra_balls")).t >= 0))
        return p
    C.ext("PlayerList.__getitem__", model=pl_get, trusted_reason="the list of players: entry i is player i + 1 "
                                                                 "(established by _player_add_request_complete)")
    C.ext("PlayerList.__len__", model=lambda I, env, a, k: I.read_field(env["self"].ref, "n"),
          trusted_reason="list length")

    def pl_append(I, env, a, k):
        n = I.force(I.read_field(env["self"].ref, "n")).t
        p = I.force(a[0])
        emit(I, "player_list.append", player=p, index=VInt(n))
        I.write_field(env["self"].ref, "n", VInt(n + 1))
        return NONE
    C.ext("PlayerList.append", model=pl_append, trusted_reason="list append")

    def pl_iter(I, env, a, k):
        """BOUNDED where used (score variables at game end): 0..2 players"""
        n = I.ctx.choose([I.force(I.read_field(env["self"].ref, "n")).t == j for j in range(3)] +
                         [I.force(I.read_field(env["self"].ref, "n")).t > 2])
        if n == 3:
            from pyvc.ctx import PathAbort
            raise PathAbort("more than 2 players: outside the bound of the score-variable loop")
        return I.new_list([pl_get(I, env, [VInt(j)], {}) for j in range(n)])
    C.ext("PlayerList.__iter__", model=pl_iter, trusted_reason="iteration over the players")

    def new_player(I, a, k):
        idx = I.force(a[1] if len(a) > 1 else k.get("index"))
        p = I.fresh(ObjS("Player", C.classes["Player"].fields), I.fresh_name("new_player"))
        I.ctx.assume(z3.And(I.force(I.read_field(p.ref, "index")).t == idx.t,
                            I.force(I.read_field(p.ref, "number")).t == idx.t + 1,
                            I.force(I.read_field(p.ref, "ball")).t == 0,
                            I.force(I.read_field(p.ref, "extra_balls")).t == 0,
                            I.force(I.read_field(p.ref, "score")).t == 0))
        emit(I, "Player()", index=idx, player=p)
        return p
    def new_list_model(I, a, k):
        """list() in game.py only ever creates the (empty) player list"""
        if a:
            raise Unsupported("list(<arg>) in game.py")
        o = VObj(Obj("PlayerList", ObjS("PlayerList", n=Int), I.fresh_name("player_list")))
        I.creating_new += 1
        try:
            I.write_field(o.ref, "n", VInt(0))
        finally:
            I.creating_new -= 1
        return o
    C.globals["list"] = VFn("model", model=new_list_model)
    C.globals["Player"] = VFn("model", model=new_player)
    C.globals["partial"] = VFn("builtin", name="partial")

    # ------------------------------------------------------------------ the game
    C.cls("Template", fields={})
    C.cls("BallController", fields=dict(num_balls_known=Int))

    def wait_empty(I, env, a, k):
        emit(I, "wait_until_playfields_are_empty")
        rely(I)
        return NONE
    C.ext("BallController.wait_until_playfields_are_empty", model=wait_empty,
          trusted_reason="ball controller (C04/C05): returns when no ball is on a playfield")
    C.cls("Playfield", fields=dict(name=Str))
    C.ext("Playfield.add_ball", model=lambda I, env, a, k: (emit(I, "add_ball", kwargs=k), NONE)[1],
          trusted_reason="playfield ball request (C05)")
    C.cls("Playfields", fields={})
    C.ext("Playfields.__getitem__", model=lambda I, env, a, k: VObj(Obj("Playfield", ObjS("Playfield", name=Str),
                                                                       I.fresh_name("target_pf"))),
          trusted_reason="device collection lookup")
    C.cls("MachineVariables", fields={})
    for m_ in ("configure_machine_var", "set_machine_var", "remove_machine_var"):
        C.ext("MachineVariables." + m_, model=common.noop, trusted_reason="machine variables (C15)")
    MACHINE = ObjS("MachineController", events=ObjS("EventManager"), game=Opt(ObjS("Game")),
                   ball_controller=ObjS("BallController"), playfield=ObjS("Playfield"), playfields=ObjS("Playfields"),
                   variables=ObjS("MachineVariables"),
                   config=Rec(game=Rec(wait_for_empty_playfields_on_ball_start=Bool)))
    C.cls("LogMixin", fields={})
    C.cls("AsyncMode", fields={}, bases=["LogMixin"])
    C.cls("Game", file=GAME, bases=["AsyncMode"], fields=dict(
        machine=MACHINE, player=Opt(ObjS("Player", C.classes["Player"].fields)), player_list=ObjS("PlayerList"),
        num_players=Int, balls_per_game=Int, max_players=Int, ending=Bool, slam_tilted=Bool, tilted=Bool,
        _balls_in_play=Int, _end_ball_event=ObjS("AsyncEvent"), _at_least_one_player_event=ObjS("AsyncEvent"),
        name=Str, _player_add_in_progress=Bool),
        invariants=[("G1: balls in play stay between zero and the number of balls known",
                     "0 <= self._balls_in_play <= self.machine.ball_controller.num_balls_known"),
                    ("G2: the players are numbered 1..num_players", "self.num_players == len(self.player_list) and "
                     "self.num_players >= 0"),
                    ("G3: the current player is one of them",
                     "implies(self.player is not None, 1 <= self.player.number <= self.num_players and "
                     "self.player.ball >= 0 and self.player.extra_balls >= 0)")])
    C.globals["hasattr"] = VFn("model", model=lambda I, a, k: VBool(True))

    def add_mode_handler(I, env, a, k):
        emit(I, "add_mode_event_handler", event=a[0], handler=a[1])
        return NONE
    C.ext("Game.add_mode_event_handler", model=add_mode_handler,
          trusted_reason="Mode.add_mode_event_handler (C07): removed when the game mode stops")

    C.fn("Game.event_end_ball", params=dict(kwargs=Opaque("Kwargs")), ensures=["self._end_ball_event.flag"],
         modifies=["self._end_ball_event.flag"], raises={})
    C.fn("Game.event_end_game", params=dict(kwargs=Opaque("Kwargs")), ensures=["self.ending and self._end_ball_event.flag"],
         modifies=["self.ending", "self._end_ball_event.flag"], raises={})

    # ---- trace helpers
    def posts(I):
        return events_named(I, "post")

    def word(I, *names):
        got = [I.pyconst(I.force(e.args["event"])) for e in posts(I)]
        return VBool(got == [I.pyconst(I.force(n)) for n in names])
    C.helpers["word"] = word

    def word_prefix(I, *names):
        got = [I.pyconst(I.force(e.args["event"])) for e in posts(I)]
        want = [I.pyconst(I.force(n)) for n in names]
        return VBool(got[:len(want)] == want)
    C.helpers["word_starts"] = word_prefix
    C.helpers["n_posts"] = lambda I: VInt(len(posts(I)))

    def kinds(I, *ks):
        got = [e.args["kind"] for e in posts(I)]
        return VBool(got == [I.pyconst(I.force(k)) for k in ks])
    C.helpers["kinds"] = kinds

    def all_carry(I, first, last, **want):
        """posts number first..last (inclusive, python indices) carry exactly these keyword values"""
        ps = posts(I)
        f, l = I.pyconst(I.force(first)), I.pyconst(I.force(last))
        conj = []
        for e in ps[f:l + 1]:
            for k, v in want.items():
                if k not in e.args["kwargs"]:
                    return VBool(False)
                conj.append(I.eq(e.args["kwargs"][k], v))
        return VBool(z3.And(*conj) if conj else z3.BoolVal(True))
    C.helpers["all_carry"] = all_carry
    C.helpers["n_flag_set"] = lambda I: VInt(len(events_named(I, "flag.set")))
    C.helpers["n_remove_handler"] = lambda I: VInt(len(events_named(I, "remove_handler")))

    def drain_handler_removed(I):
        evs = events_named(I, "remove_handler")
        if len(evs) != 1:
            return VBool(False)
        h = I.force(evs[0].args["handler"])
        return VBool(h.tag == "fn" and h.kind == "bound" and h.name == "ball_drained")
    C.helpers["drain_handler_removed_once"] = drain_handler_removed

    def flag_cleared_only_before_start(I):
        """the end-of-ball flag is cleared before the ball's start sequence and never after: an end request made while
        the ball is starting (tilt, end_ball, failed ball search) is not lost"""
        names = [e.name for e in I.cur_trace() if e.name in ("flag.clear", "call:_start_ball")]
        return VBool(names == ["flag.clear", "call:_start_ball"])
    C.helpers["flag_cleared_only_before_start"] = flag_cleared_only_before_start
    C.helpers["n_added_balls"] = lambda I: VInt(len(events_named(I, "add_ball")))

    def calls(I):
        return [e.name[5:] for e in I.cur_trace() if e.name.startswith("call:")]

    def iteration_word(I):
        """one loop iteration serves ONE turn: turn start, one ball, turn end, then at most one rotation (the extra
        balls are the inner loop, checked by its own clause)"""
        c = [x for x in calls(I) if x != "_award_extra_ball"]
        if c in (["_start_player_turn", "_run_ball", "_end_player_turn"],
                 ["_start_player_turn", "_run_ball", "_end_player_turn", "_rotate_players"]):
            return VBool(True)
        if c in (["_start_player_turn", "_end_player_turn"], ["_start_player_turn", "_end_player_turn", "_rotate_players"]):
            # a turn without a ball: only when the end of the game (or a slam tilt) was requested before the ball started
            e = [x for x in I.cur_trace() if x.name == "call:_end_player_turn"][0]
            return VBool(z3.Or(I.truth(e.args["ending"]), I.truth(e.args["slam"])))
        return VBool(False)

    def ball_only_without_pending_end(I):
        """a ball is only started while no end of the game is pending: an end-game or slam-tilt request that arrives while
        the turn is starting (player_turn_will_start / _starting / _started) is not forgotten"""
        return VBool(z3.And(*[z3.And(z3.Not(I.truth(e.args["ending"])), z3.Not(I.truth(e.args["slam"])))
                              for e in I.cur_trace() if e.name == "call:_run_ball"] + [z3.BoolVal(True)]))
    C.helpers["ball_only_without_pending_end"] = ball_only_without_pending_end
    C.helpers["iteration_is_one_turn"] = iteration_word
    C.helpers["n_calls"] = lambda I, nm: VInt(len([x for x in calls(I) if x == I.pyconst(I.force(nm))]))

    def extra_ball_not_after_end(I):
        return VBool(z3.And(*[z3.Not(I.truth(e.args["ending"])) for e in I.cur_trace()
                              if e.name == "call:_award_extra_ball"] + [z3.BoolVal(True)]))
    C.helpers["extra_balls_only_while_not_ending"] = extra_ball_not_after_end
    C.trace_helpers = {"word", "word_starts", "n_posts", "kinds", "all_carry", "n_flag_set", "n_added_balls",
                       "n_remove_handler", "drain_handler_removed_once", "flag_cleared_only_before_start",
                       "iteration_is_one_turn", "n_calls", "extra_balls_only_while_not_ending", "setup_done",
                       "ball_only_without_pending_end", "waits_can_end"}

    def call_emit(name):
        def e(I, env, res):
            g = env["self"].ref
            # the flags as they were when the call was made (the callee may change them)
            emit(I, "call:" + name, ending=I.read_field(g, "ending", heap=I.old_heap),
                 slam=I.read_field(g, "slam_tilted", heap=I.old_heap))
        return e
    RELY_MODS = ["self.ending", "self.slam_tilted", "self.player.extra_balls", "self.player_list.n",
                 "self.num_players", "self._balls_in_play", "self._end_ball_event.flag", "self._player_add_in_progress"]
    MONO = ("requests are never taken back", "implies(old(self.ending), self.ending) and "
                                             "implies(old(self.slam_tilted), self.slam_tilted)")
    SAMEP = ("the current player, their number and ball counter are not changed",
             "self.player is old(self.player) and self.player.number == old(self.player.number) and "
             "self.player.ball == old(self.player.ball)")
    HASP = ("a player is up", "self.player is not None")

    # ---- balls in play
    C.fn("Game.balls_in_play", is_property=True, inline=True, no_inv=True)
    C.fn("Game.balls_in_play@setter", params=dict(value=Int),
         ensures=[("B1: the count is clamped to [0, balls known]",
                   "self._balls_in_play == (self.machine.ball_controller.num_balls_known if value > "
                   "self.machine.ball_controller.num_balls_known else (0 if value < 0 else value))"),
                  ("B2: balls_in_play is posted with the new count iff at least one ball is in play",
                   "(word('balls_in_play') and all_carry(0, 0, balls=self._balls_in_play)) if self._balls_in_play > 0 "
                   "else n_posts() == 0"),
                  ("B3: the ball ends exactly when balls in play reaches zero",
                   "n_flag_set() == (1 if (old(self._balls_in_play) > 0 and self._balls_in_play == 0) else 0) and "
                   "implies(n_flag_set() == 1, self._end_ball_event.flag)"),
                  ("the count change itself registers / removes no handler", "n_remove_handler() == 0")],
         modifies=["self._balls_in_play", "self._end_ball_event.flag"], raises={}, inline_calls=True)
    C.fn("Game.ball_drained", params=dict(balls=Int, kwargs=Opaque("Kwargs")),
         requires=[("drained balls are counted", "balls >= 0")],
         ensures=[("B4: every drained ball leaves play (never below zero)",
                   "self._balls_in_play == (old(self._balls_in_play) - balls if old(self._balls_in_play) >= balls "
                   "else 0)")],
         modifies=["self._balls_in_play", "self._end_ball_event.flag"], raises={})
    C.fn("Game.end_ball", ensures=[("B5: an end-of-ball request sets the flag the running ball waits on",
                                    "self._end_ball_event.flag")],
         modifies=["self._end_ball_event.flag"], raises={}, inline_calls=True)
    C.fn("Game.end_game", ensures=[("an end-of-game request ends the current ball and marks the game as ending",
                                    "self.ending and self._end_ball_event.flag")],
         modifies=["self.ending", "self._end_ball_event.flag"], raises={})

    # ---- turn, ball
    C.fn("Game._rotate_players",
         requires=[("there is at least one player", "self.num_players >= 1")],
         ensures=[("R1: the next player in order is up: number + 1, wrapping to player 1",
                   "self.player is not None and self.player.number == (old(self.player.number) + 1 if "
                   "(old(self.player) is not None and old(self.player.number) < self.num_players) else 1)")],
         modifies=["self.player"], raises={}, emits=call_emit("_rotate_players"))
    PN = dict(player="self.player", number="self.player.number")
    C.fn("Game._start_player_turn",
         requires=[("there is at least one player", "self.num_players >= 1")],
         ensures=[HASP,
                  ("T1: the turn starts with will_start, starting (queue), started - for the player who is up, with "
                   "their number", "word('player_turn_will_start', 'player_turn_starting', 'player_turn_started') and "
                   "kinds('post_async', 'post_queue_async', 'post_async') and "
                   "all_carry(0, 2, player=self.player, number=self.player.number)"),
                  ("T2: the player's ball counter goes up by exactly one",
                   "implies(old(self.player) is not None, self.player is old(self.player) and self.player.ball == "
                   "old(self.player.ball) + 1)"),
                  MONO],
         modifies=["self.player", "self.player.ball", "post:self.player.ball"] + RELY_MODS, raises={},
         emits=call_emit("_start_player_turn"),
         call_ensures=[HASP, MONO, ("the ball counter went up", "implies(self.player is not None, self.player.ball >= 1)")])
    C.fn("Game._end_player_turn",
         ensures=[("T3: the turn ends with will_end, ending (queue), ended for the same player (nothing without one)",
                   "(word('player_turn_will_end', 'player_turn_ending', 'player_turn_ended') and "
                   "kinds('post_async', 'post_queue_async', 'post_async') and "
                   "all_carry(0, 2, player=self.player, number=self.player.number)) if self.player is not None else "
                   "n_posts() == 0"), MONO],
         modifies=RELY_MODS, raises={}, emits=call_emit("_end_player_turn"),
         call_ensures=[MONO, ("same player", "self.player is old(self.player) and implies(self.player is not None, "
                              "self.player.number == old(self.player.number) and self.player.ball == "
                              "old(self.player.ball))")])
    ARGS = "player=self.player.number, ball=self.player.ball, balls_remaining=self.balls_per_game - " \
           "self.player.ball, is_extra_ball=is_extra_ball"
    KNOWN = ("at least one ball is known to the machine", "self.machine.ball_controller.num_balls_known >= 1")
    C.fn("Game._start_ball", params=dict(is_extra_ball=Bool), requires=[HASP, KNOWN],
         ensures=[("S1: the ball starts with will_start, starting (queue), [one ball in play], started, the "
                   "single/multi-player announcement and the target relay - all with this player's number, ball "
                   "number and balls remaining",
                   "word_starts('ball_will_start', 'ball_starting', 'balls_in_play', 'ball_started') and "
                   "all_carry(0, 1, " + ARGS + ") and all_carry(3, 3, " + ARGS + ")"),
                  ("S2: exactly one ball is requested for the playfield", "n_added_balls() == 1"),
                  MONO, SAMEP],
         modifies=RELY_MODS, raises={"AssertionError": "not self.machine.playfield"},
         emits=call_emit("_start_ball"),
         call_ensures=[MONO, SAMEP])
    C.fn("Game._end_ball", requires=[HASP],
         ensures=[("E1: the ball ends with will_end, ending (queue), ended; the drain handler is removed first",
                   "word('ball_will_end', 'ball_ending', 'ball_ended') and "
                   "kinds('post_async', 'post_queue_async', 'post_async')"),
                  ("E2: however the ball ended (last drain or a request) its drain handler is removed exactly once, so "
                   "the next ball does not count a drain twice", "drain_handler_removed_once()"), MONO, SAMEP],
         modifies=RELY_MODS, raises={}, emits=lambda I, env, res: None, call_ensures=[MONO, SAMEP])
    C.fn("Game._run_ball", params=dict(is_extra_ball=Bool), requires=[HASP, KNOWN],
         ensures=[("RB1: one ball: the end flag is cleared, THEN the ball starts, runs until the flag is set (balls in "
                   "play reached zero or an end was requested - also during the start sequence) and ends",
                   "flag_cleared_only_before_start()"), MONO, SAMEP],
         modifies=RELY_MODS, raises={"AssertionError": "not self.machine.playfield"}, emits=call_emit("_run_ball"),
         call_ensures=[MONO, SAMEP])
    C.fn("Game._award_extra_ball", requires=[HASP, KNOWN, ("the player has an extra ball", "self.player.extra_balls >= 1")],
         ensures=[("X1: one extra ball is consumed per extra ball played", "True"), MONO, SAMEP],
         modifies=RELY_MODS, raises={"AssertionError": "not self.machine.playfield"},
         emits=call_emit("_award_extra_ball"), call_ensures=[MONO, SAMEP])

    # ---- game start / end
    def waits_can_end(I):
        """the game only suspends on 'at least one player exists' while somebody can still set it: a player add is in
        flight, or one can still be requested (the game is not ending)"""
        return VBool(z3.And(*[z3.Or(z3.Not(I.truth(e.args["ending"])), I.truth(e.args["adding"]))
                              for e in I.cur_trace() if e.name == "flag.suspend" and
                              "_at_least_one_player_event" in str(e.args["ev"])] + [z3.BoolVal(True)]))
    C.helpers["waits_can_end"] = waits_can_end
    for demo_, what_ in (("c06_end_game_while_game_starting.py", "a game ended inside game_starting ends (and a new one can start)"),
                         ("c06_end_request_between_balls.py", "an end_game request made while a turn is starting ends the game "
                                                              "before the next ball"),
                         ('c06_late_player_add_extra_ball.py',
                          'a player-add request that arrives after the rotation back to player 1 (inside player_turn_will_start / _starting of ball 2) is refused: no player gets more balls than balls_per_game')):
        C.finite_checks.append(common.native_demo_check(demo_, what_))
    C.fn("Game._start_game",
         ensures=[("G4: game_will_start, game_starting (queue, carrying the game), then - once a player exists - "
                   "game_started", "word_starts('game_will_start', 'game_starting') and "
                   "all_carry(1, 1, game=self)"), MONO,
                  ("G4b: an end_game request inside game_starting does not leave the game waiting for a first player that "
                   "can no longer be added (the game mode would stay active for ever and no new game could start)",
                   "waits_can_end()")],
         modifies=RELY_MODS + ["self._at_least_one_player_event.flag", "self.player"], raises={},
         emits=lambda I, env, res: None,
         call_ensures=[MONO, ("at least one player has been added", "self.num_players >= 1")])
    C.fn("Game._end_game",
         loops={0: LoopSpec(invariant=[], unroll=True), 1: LoopSpec(invariant=[], modifies=[])},
         bounded="BOUNDED: the score-variable loop is unrolled for at most 2 players (the event word does not depend on it)",
         ensures=[("G5: game_will_end, game_ending (queue), game_ended", "word('game_will_end', 'game_ending', "
                   "'game_ended') and kinds('post_async', 'post_queue_async', 'post_async')")],
         modifies=RELY_MODS, raises={}, emits=lambda I, env, res: None, call_ensures=[MONO])
    C.globals["PLAYER_VAR_SCORE_TEMPLATE"] = VStr("player{}_score")

    # ---- adding players
    C.fn("Game.request_player_add", params=dict(kwargs=Opaque("Kwargs")), result=Bool,
         ensures=[("P1: a player can only be added before the game is ending, below max_players, during ball 1 and while "
                   "NO earlier request is still in flight (an approved player is paid for only when player_added is handled: "
                   "a second request in between would be judged on the same credits); then (and only then) the request is "
                   "put to the vote",
                   "result == (not self.ending and len(self.player_list) < self.max_players and not "
                   "(self.player is not None and self.player.ball > 1) and not old(self._player_add_in_progress)) and "
                   "(word('player_add_request') if result else n_posts() == 0)"),
                  ("P1b: an accepted request is in flight until it is denied or its player_added event has been queued",
                   "self._player_add_in_progress == (True if result else old(self._player_add_in_progress))")],
         modifies=["self._player_add_in_progress"], raises={}, inline_calls=True)

    def one_player_appended(I):
        evs = events_named(I, "player_list.append")
        mk = events_named(I, "Player()")
        if len(evs) != 1 or len(mk) != 1:
            return VBool(False)
        return VBool(z3.And(I.eq(mk[0].args["index"], evs[0].args["index"]),
                            z3.BoolVal(I.force(evs[0].args["player"]).ref is I.force(mk[0].args["player"]).ref)))
    C.helpers["one_new_player_appended"] = one_player_appended
    C.helpers["n_new_players"] = lambda I: VInt(len(events_named(I, "Player()")))
    C.trace_helpers |= {"one_new_player_appended", "n_new_players"}
    C.fn("Game._player_add_request_complete", params=dict(ev_result=Bool, kwargs=Opaque("Kwargs")), result=Bool,
         ensures=[("P2: a denied request changes nothing - and ends the request",
                   "implies(not ev_result, not result and n_posts() == 0 and n_new_players() == 0 and "
                   "self.num_players == old(self.num_players) and not self._player_add_in_progress)"),
                  ("P3: otherwise exactly one new Player with the next index is appended (numbers stay 1..n) and "
                   "player_will_add / player_adding carry the new number",
                   "implies(ev_result, result and one_new_player_appended() and self.num_players == "
                   "old(self.num_players) + 1 and word('player_will_add', 'player_adding') and "
                   "all_carry(0, 1, number=self.num_players))")],
         modifies=["self.player_list.n", "self.num_players", "self._player_add_in_progress"], raises={})

    def added_then_released(I, player):
        """player_added (carrying the player, completion: _player_added) is POSTED - queued ahead of any later
        player_add_request - and only then the request is no longer in flight; multiplayer_game follows exactly for player two"""
        evs = events_named(I, "post")
        if not evs or I.pyconst(I.force(evs[0].args["event"])) != "player_added":
            return VBool(False)
        kw = evs[0].args["kwargs"]
        this = I.frames[0].env["self"].ref
        multi = I.read_field(this, "num_players").t == 2
        if len(evs) == 1:
            rest = z3.Not(multi)
        elif len(evs) == 2 and I.pyconst(I.force(evs[1].args["event"])) == "multiplayer_game":
            rest = multi
        else:
            return VBool(False)
        return VBool(z3.And(I.eq(kw.get("player", NONE), player), rest,
                            z3.Not(I.truth(I.read_field(this, "_player_add_in_progress")))))
    C.helpers["added_then_released"] = added_then_released
    C.trace_helpers |= {"added_then_released"}
    C.fn("Game._player_adding_complete", params=dict(player=ObjS("Player", C.classes["Player"].fields), kwargs=Opaque("Kwargs")),
         ensures=[("P4: when the player_adding queue event is done, player_added is posted and the request is over; the first "
                   "player becomes the current player and the game loop is told that a player exists",
                   "added_then_released(player) and self._at_least_one_player_event.flag and "
                   "(self.player is player if old(self.player) is None else self.player is old(self.player))")],
         modifies=["self._player_add_in_progress", "self.player", "self._at_least_one_player_event.flag"], raises={},
         no_inv=True)

    # ---- the loop
    def setup_done(I):
        return VBool(True)
    C.helpers["setup_done"] = setup_done
    C.cls("TemplateI", fields={})
    C.ext("TemplateI.evaluate", model=lambda I, env, a, k: VInt(z3.Int(I.fresh_name("cfg"))), trusted_reason="config template")
    C.globals["asyncio"] = VFn("module", name="asyncio")
    C.globals["asyncio.Event"] = VFn("model", model=lambda I, a, k: I.fresh(ObjS("AsyncEvent", flag=Bool),
                                                                         I.fresh_name("event")))
    C.classes["Game"].fields["machine"] = ObjS("MachineController", events=ObjS("EventManager"),
                                               game=Opt(ObjS("Game")), ball_controller=ObjS("BallController"),
                                               playfield=ObjS("Playfield"), playfields=ObjS("Playfields"),
                                               variables=ObjS("MachineVariables"),
                                               config=Rec(game=Rec(wait_for_empty_playfields_on_ball_start=Bool,
                                                                   balls_per_game=ObjS("TemplateI"),
                                                                   max_players=ObjS("TemplateI"),
                                                                   add_player_switch_tag=Str, add_player_event=Str,
                                                                   end_ball_event=Str, end_game_event=Str),
                                                          mpf=Rec(switch_tag_event=ObjS("EventNameTemplate"))))
    C.cls("EventNameTemplate", fields={})
    C.ext("EventNameTemplate.replace", model=lambda I, env, a, k: VStr(z3.String(I.fresh_name("tag_event"))),
          trusted_reason="str.replace on the switch tag event template")
    LOOPMODS = RELY_MODS + ["self.player", "self.player.ball"]
    RUN_OUTER = LoopSpec(
             invariant=[("G2", "self.num_players == len(self.player_list) and self.num_players >= 1"),
                        ("G1", "0 <= self._balls_in_play <= self.machine.ball_controller.num_balls_known"),
                        ("G3", "implies(self.player is not None, 1 <= self.player.number <= self.num_players and "
                               "self.player.ball >= 0 and self.player.extra_balls >= 0)")],
             modifies=LOOPMODS,
             body_ensures=[("L1: one loop pass is exactly one turn of one player: turn start, one ball, (extra "
                            "balls), turn end, and a rotation to the next player unless the game is over",
                            "iteration_is_one_turn()"),
                           ("L1b: a ball is started only while no end of the game is pending - a request made between the "
                            "balls (while the turn is starting) is honoured before the next ball, not after it has been "
                            "played", "ball_only_without_pending_end()"),
                           ("L2: the game ends after the turn iff it was slam-tilted or the last player finished "
                            "their last ball (or an end was requested); otherwise the next player is up",
                            "implies(n_calls('_rotate_players') == 0, self.ending)")])
    RUN_EXTRA = LoopSpec(
             invariant=[("a player is up", "self.player is not None"),
                        ("G3", "implies(self.player is not None, self.player.extra_balls >= 0 and "
                               "1 <= self.player.number <= self.num_players and self.player.ball >= 0)"),
                        ("G2", "self.num_players == len(self.player_list) and self.num_players >= 1"),
                        ("G1", "0 <= self._balls_in_play <= self.machine.ball_controller.num_balls_known"),
                        ("requests are never taken back (also across the extra balls)",
                         "implies(old_loop(self.ending), self.ending) and implies(old_loop(self.slam_tilted), "
                         "self.slam_tilted)")],
             modifies=RELY_MODS,
             body_ensures=[("L3: an extra ball is only played while the game is not ending and not slam-tilted, and "
                            "consumes one of the player's extra balls",
                            "extra_balls_only_while_not_ending() and n_calls('_award_extra_ball') == 1")])
    C.fn("Game._run", requires=[KNOWN], shards=8,
         loops={0: RUN_OUTER, 1: RUN_EXTRA},
         # the same loop contracts by loop test, for when a clean-up moves a loop into a helper
         loops_by_text={"self.player.extra_balls": RUN_EXTRA, "not self.ending": RUN_OUTER},
         ensures=[("the game ran to its end", "self.ending")],
         modifies=LOOPMODS + ["self.player_list", "self.machine.game", "self.tilted", "self.balls_per_game",
                              "self.max_players", "self._end_ball_event", "self._at_least_one_player_event",
                              "self._stopping_modes", "self._stopping_queue"],
         raises={"AssertionError": True}, no_inv=True,
         skip_frame="top-level game loop: it (re)initialises the whole game state; its frame is not of interest")
    C.classes["Game"].fields.update(dict(_stopping_modes=Opaque("Any"), _stopping_queue=Opaque("Any")))
    C.assume("A-RELY handlers of the lifecycle events may request the end of the ball / game, slam-tilt, award extra "
             "balls, add players and change balls in play, but never change the current player or a player's number / "
             "ball counter")
    C.assume("liveness of awaited queue events (C02 gives exactly-once completion, not eventual) and the AsyncMode task "
             "start/stop are not decided; 'exactly balls_per_game balls per player' follows from T2 + L2 by induction "
             "(stated)")
    return C


def game_stop_set(pid="C06g"):
    """the game mode's own stopping queue event: the game does not reach `stopped` while one of its game modes is
    still active - every active game mode, also one that is already stopping, is asked to stop and awaited"""
    C = ContractSet(pid, "the game stops only after its game modes have stopped")
    C.strings = False
    NM = common.bound(2, 3)
    C.cls("AsyncMode", fields={})
    C.cls("ModeI", fields=dict(is_game_mode=Bool, active=Bool, stopping=Bool, name=Str))

    def mode_stop(I, env, a, k):
        emit(I, "mode.stop", mode=env["self"].ref, callback=k.get("callback", a[0] if a else NONE))
        return I.read_field(env["self"].ref, "active")
    C.ext("ModeI.stop", model=mode_stop, trusted_reason="Mode.stop (C02 / C07): registers the callback of a running mode - "
                                                        "also of one that is already stopping - and returns")
    C.cls("QueueI", fields=dict(waiter=Bool))

    def q_wait(I, env, a, k):
        if I.ctx.branch(I.truth(I.read_field(env["self"].ref, "waiter"))):
            I.raise_("AssertionError", "Double lock")
        I.write_field(env["self"].ref, "waiter", VBool(True))
        emit(I, "queue.wait", q=env["self"].ref)
        return NONE

    def q_clear(I, env, a, k):
        if I.ctx.branch(z3.Not(I.truth(I.read_field(env["self"].ref, "waiter")))):
            I.raise_("AssertionError", "Not waiting")
        I.write_field(env["self"].ref, "waiter", VBool(False))
        emit(I, "queue.clear", q=env["self"].ref)
        return NONE
    C.ext("QueueI.wait", model=q_wait, trusted_reason="QueuedEvent typestate (C02)")
    C.ext("QueueI.clear", model=q_clear, trusted_reason="QueuedEvent typestate (C02)")

    def modes(I, name):
        ms = [I.fresh(ObjS("ModeI"), "%s[mode%d]" % (name, i)) for i in range(I.ctx.fork(NM + 1))]
        I.__dict__["c06_modes"] = ms
        return I.new_dict(tuple(("mode%d" % i, m) for i, m in enumerate(ms)), name)

    def stopping_modes(I, name):
        """modes still awaited: 1..NM distinct modes"""
        ms = [I.fresh(ObjS("ModeI"), "%s[%d]" % (name, i)) for i in range(1 + I.ctx.fork(NM))]
        I.__dict__["c06_awaited"] = ms
        return I.new_list(ms, name)
    C.cls("Game", file=GAME, bases=["AsyncMode"], check_bases=False, fields=dict(
        machine=ObjS("MachineController", modes=Init(modes)), _stopping_modes=Init(stopping_modes),
        _stopping_queue=Opt(ObjS("QueueI"))))

    def all_asked(I, queue):
        ms = I.__dict__.get("c06_modes", [])
        evs = events_named(I, "mode.stop")
        this = I.frames[0].env["self"].ref
        held = I.container(I.force(I.read_field(this, "_stopping_modes")).ref).items
        held_refs = [I.force(h).ref for h in held]
        cs = []
        want_any = []
        for m in ms:
            g = z3.And(I.truth(I.read_field(m.ref, "is_game_mode", heap=I.old_heap)),
                       I.truth(I.read_field(m.ref, "active", heap=I.old_heap)))
            mine = [e for e in evs if e.args["mode"] is m.ref]
            cb_ok = False
            if len(mine) == 1:
                cb = I.force(mine[0].args["callback"])
                cb_ok = cb.tag == "fn" and cb.kind == "partial" and getattr(I.force(cb.fn), "name", None) == \
                    "_game_mode_stopped" and I.force(cb.kwargs.get("mode", NONE)).tag == "obj" and \
                    I.force(cb.kwargs["mode"]).ref is m.ref
            cs.append(z3.If(g, z3.BoolVal(len(mine) == 1 and cb_ok and held_refs.count(m.ref) == 1),
                            z3.BoolVal(len(mine) == 0 and m.ref not in held_refs)))
            want_any.append(g)
        qv = I.force(queue)
        waits = [e for e in events_named(I, "queue.wait") if e.args["q"] is qv.ref]
        anyone = z3.Or(want_any + [z3.BoolVal(False)])
        sq = I.read_field(this, "_stopping_queue")
        cs.append(z3.If(anyone, z3.And(z3.BoolVal(len(waits) == 1), I.eq(sq, qv) if I.force(sq).tag != "none" or
                                       isinstance(sq, VUnion) else z3.BoolVal(False)),
                        z3.BoolVal(len(waits) == 0)))
        return VBool(z3.And(cs))
    C.helpers["all_game_modes_asked"] = all_asked
    C.trace_helpers = {"all_game_modes_asked", "n_clears"}
    C.helpers["n_clears"] = lambda I: VInt(len(events_named(I, "queue.clear")))
    C.fn("Game._stop_game_modes", params=dict(queue=ObjS("QueueI"), kwargs=Opaque("Kwargs")),
         requires=[("the stopping event's queue is not held yet by the game", "not queue.waiter")],
         loops={0: LoopSpec(invariant=[], unroll=True)},
         ensures=[("GS1: every active game mode - also one that is ALREADY stopping - is asked to stop with a callback for "
                   "that very mode and is awaited; the stopping queue event is held iff at least one is awaited",
                   "all_game_modes_asked(queue)")],
         modifies=["self._stopping_modes", "self._stopping_queue", "queue.waiter"], raises={}, skip_frame=True,
         bounded="BOUNDED: at most %d modes" % NM)

    def awaited_mode(I, name):
        ms = I.__dict__.get("c06_awaited")
        if ms is None:
            I.force(I.read_field(I.frames[0].env["self"].ref, "_stopping_modes"))
            ms = I.__dict__["c06_awaited"]
        return ms[I.ctx.fork(len(ms))]
    C.fn("Game._game_mode_stopped", params=dict(mode=Init(awaited_mode)),
         requires=[("a stop is awaited: the queue is held", "self._stopping_queue is not None and "
                                                            "self._stopping_queue.waiter")],
         ensures=[("GS2: the stopping queue event is released exactly when the LAST awaited game mode has stopped",
                   "mode not in self._stopping_modes and len(self._stopping_modes) == old(len(self._stopping_modes)) - 1 "
                   "and n_clears() == (1 if len(self._stopping_modes) == 0 else 0)")],
         modifies=["self._stopping_modes", "self._stopping_queue", "self._stopping_queue.waiter"], raises={},
         skip_frame=True, bounded="BOUNDED: at most %d awaited modes" % NM)
    return C


BC = "mpf/core/ball_controller.py"
TILT = "mpf/modes/tilt/code/tilt.py"


def drain_set():
    """what feeds the game's ball-end decisions from outside the game mode: the ball controller's ball_drain relay
    (only balls nobody claimed count as drained) and the slam tilt (always recorded while a game runs)"""
    C = ContractSet("C06d", "drain relay and slam tilt reach the game unaltered")
    C.strings = False
    C.cls("MpfController", fields={})
    C.cls("EventManager", fields={})

    def post(kind):
        def m(I, env, a, k):
            emit(I, "post", kind=kind, event=a[0] if a else k.get("event"), kwargs={x: v for x, v in k.items()
                                                                                   if x not in ("event", "callback")})
            return NONE
        return m
    C.ext("EventManager.post_relay", model=post("post_relay"), trusted_reason="event posting (C01)")
    C.ext("EventManager.post", model=post("post"), trusted_reason="event posting (C01)")
    C.cls("BallController", file=BC, bases=["MpfController"], fields=dict(
        machine=ObjS("MachineController", events=ObjS("EventManager"))))

    def drain_relayed(I, device, unclaimed):
        evs = events_named(I, "post")
        if len(evs) != 1 or evs[0].args["kind"] != "post_relay" or I.pyconst(I.force(evs[0].args["event"])) != "ball_drain":
            return VBool(False)
        kw = evs[0].args["kwargs"]
        if sorted(kw) != ["balls", "device"]:
            return VBool(False)
        return VBool(z3.And(I.eq(kw["balls"], unclaimed), I.eq(kw["device"], device)))
    C.helpers["drain_relayed"] = drain_relayed
    C.fn("BallController._ball_drained_handler",
         params=dict(new_balls=Int, unclaimed_balls=Int, device=Opaque("Device"), kwargs=Opaque("Kwargs")),
         ensures=[("DR1: a ball entering a drain device counts as drained only if nobody claimed it: the ball_drain relay "
                   "carries the UNCLAIMED balls (an expected transfer, e.g. outhole to trough, does not end a ball twice)",
                   "drain_relayed(device, unclaimed_balls)")],
         modifies=[], raises={})
    C.cls("Mode", fields={})
    C.cls("GameI", fields=dict(slam_tilted=Bool, tilted=Bool, ending=Bool))
    C.cls("Tilt", file=TILT, bases=["Mode"], fields=dict(
        machine=ObjS("MachineController", events=ObjS("EventManager"), game=Opt(ObjS("GameI")))))
    C.ext("Tilt.tilt", model=lambda I, env, a, k: (emit(I, "tilt()"), NONE)[1],
          trusted_reason="Tilt.tilt: ends the ball unless the game is already tilted or ending")
    C.helpers["n_tilt_calls"] = lambda I: VInt(len(events_named(I, "tilt()")))
    C.helpers["n_posts"] = lambda I: VInt(len(events_named(I, "post")))
    C.trace_helpers = {"drain_relayed", "n_tilt_calls", "n_posts"}
    C.fn("Tilt.slam_tilt", params=dict(kwargs=Opaque("Kwargs")),
         ensures=[("ST1: a slam tilt during a game is ALWAYS recorded (game.slam_tilted) - also while the ball is already "
                   "tilted or the game is ending - so that the game ends instead of going on with the next ball",
                   "implies(self.machine.game is not None, self.machine.game.slam_tilted and n_tilt_calls() == 1)"),
                  ("the slam_tilt event is posted once", "n_posts() == 1")],
         modifies=["self.machine.game.slam_tilted"], raises={})
    return C


def build_extra():
    # a ball (and so the game) only ends after every game mode that stops at ball end has stopped (C11's mode
    # controller contracts), a stop request on a mode that is already stopping is still awaited (C02's Mode.stop)
    from . import C11, C02
    c02 = C02.build()
    c02.pid = "C06s"
    c02.replay_pid = "C02"
    c02.only_verify = ["Mode.stop"]
    # a player-add request may arrive at any point and the player_adding queue may be held for any time: the turn of a
    # player who is still being added must not break the handlers of the turn (C11's late-player set PT0 / PT1)
    return [game_stop_set(), C11.mode_controller_set("C06m"), c02, drain_set(), C11.late_player_set("C06l")]
