"""C03 - Switch state mirrors the hardware; handlers fire once per real change.

Part A (proof): process_switch_obj (NO/NC inversion, duplicate suppression, hardware state, timestamp,
cancel-then-dispatch order), is_state/is_active/is_inactive, add_switch_handler_obj (registration and the
deadline rule for handlers added mid-interval).
Part B: the timed-handler bookkeeping (see C03 notes in DESIGN.md).
"""
import z3

from pyvc.contract import ContractSet, LoopSpec
from pyvc.vals import *       # noqa
from pyvc import vals as V
from pyvc.interp import MISSING
from . import common
from .common import emit, events_named

SC = "mpf/core/switch_controller.py"
KW = Opaque("Kwargs")


def build():
    C = ContractSet("C03", "Switch state mirrors the hardware; handlers fire once per real change")
    C.namedtuple(SC, "SwitchHandler")
    C.namedtuple(SC, "TimedSwitchHandler")
    C.namedtuple(SC, "MonitoredSwitchChange")
    C.cls("ClockBase", fields=dict(now=Real))
    C.ext("ClockBase.get_time", model=lambda I, env, a, k: I.read_field(env["self"].ref, "now"),
          trusted_reason="loop clock (A-ASYNCIO): returns the current time")
    C.cls("MpfController", fields={})
    C.cls("RegisteredSwitch", file=SC, fields={})
    C.fn("RegisteredSwitch.__init__", inline=True)

    def same_machine(I, name):
        """the switch belongs to the same machine (and clock) as the controller under proof"""
        return I.read_field(I.frames[0].env["self"].ref, "machine")
    SWITCH = ObjS("Switch", machine=Init(same_machine), state=Int, hw_state=Int, invert=Int, last_change=Real, is_muted=Bool, name=Str, label=Str,
                  platform=Opaque("Platform"), hw_switch=Opt(ObjS("HwSwitch", number=Opaque("Num"))))
    C.cls("Switch", file="mpf/devices/switch.py", fields=dict(machine=ObjS("MachineController", clock=ObjS("ClockBase")),
                                                             last_change=Real),
          check_bases=False)
    C.fn("Switch.get_ms_since_last_change", params=dict(current_time=Opt(Real)), result=Real, pure=True,
         ensures=[("elapsed ms since the last change, rounded to whole ms (half-even)",
                   "result == round(((current_time if current_time is not None else self.machine.clock.now) "
                   "- self.last_change) * 1000.0, 0)")],
         modifies=[], raises={})

    def reg_init(I, name):
        """registered_switches: {switch: [handlers for state 0, handlers for state 1]} for the switch in scope"""
        env = I.frames[0].env
        sw = env.get("switch") or env.get("obj")
        lists = []
        for st in (0, 1):
            lists.append(I.fresh(Seq(ObjS("RegisteredSwitch", ms=Num, callback=Fn, cancelled=Bool)),
                                 "%s[sw][%d]" % (name, st)))
        ref = Ref(name)
        inner = Ref(name + "[sw]")
        I.init_loc((inner, "$"), LConc(lists))
        I.init_loc((ref, "$"), DConc(((I.force(sw).ref, VList(inner)),)))
        return VDict(ref)

    C.cls("SwitchController", file=SC, bases=["MpfController"], fields=dict(
        machine=ObjS("MachineController", clock=ObjS("ClockBase"), options=Rec(production=Bool)),
        _initialized=Bool, monitors=Seq(Fn), _debug=Bool, _debug_to_console=Bool, _debug_to_file=Bool,
        registered_switches=Init(reg_init),
    ))

    # ------------------------------------------------------------------ helpers
    C.trace_helpers = {"n_ev", "order_ok", "n_add_timed", "add_timed_key", "n_callbacks"}

    def n_ev(I, name):
        return VInt(len(events_named(I, I.pyconst(I.force(name)))))
    C.helpers["n_ev"] = n_ev
    C.helpers["n_callbacks"] = lambda I: VInt(len(events_named(I, "callback")))

    def order_ok(I):
        """pending timed handlers of the old state are cancelled before any handler of the new state runs"""
        names = [e.name for e in I.cur_trace() if e.name in ("cancel_timed", "call_handlers")]
        return VBool(names in (["cancel_timed"], ["cancel_timed", "call_handlers"]))
    C.helpers["order_ok"] = order_ok

    def add_timed_key(I):
        ev = events_named(I, "add_timed")
        return ev[0].args["time"] if ev else NONE
    C.helpers["add_timed_key"] = add_timed_key

    def add_timed_value_ok(I, callback, state, ms):
        ev = events_named(I, "add_timed")
        if len(ev) != 1:
            return VBool(False)
        v = I.force(ev[0].args["handler"])
        return VBool(z3.And(I.eq(v.items[1], state), I.eq(v.items[2], ms)))
    C.helpers["add_timed_value_ok"] = add_timed_value_ok
    C.helpers["now"] = lambda I: I.read_field(I.force(I.read_field(I.force(I.read_field(
        I.frames[0].env["self"].ref, "machine")).ref, "clock")).ref, "now")

    def marker(name, *params):
        def f(I, env, res):
            emit(I, name, **{p: env[p] for p in params})
        return f

    # ------------------------------------------------------------------ process_switch_obj
    C.fn("SwitchController._cancel_timed_handlers", params=dict(switch=SWITCH), external=True,
         emits=marker("cancel_timed", "switch"),
         trusted_reason="Part B: removes every pending deadline of the switch and its wake-up (bounded check)")
    C.fn("SwitchController._add_timed_switch_handler", params=dict(switch=SWITCH, time=Real, timed_switch_handler=TupleS()),
         external=True, emits=lambda I, env, res: emit(I, "add_timed", switch=env["switch"], time=env["time"],
                                                       handler=env["timed_switch_handler"]),
         trusted_reason="Part B: records the deadline and (re)arms the single wake-up (bounded check)")

    B = "(1 if state else 0)"
    NEW = "(%s if logical else (1 - %s if obj.invert else %s))" % (B, B, B)
    HW = "((1 - %s if obj.invert else %s) if logical else %s)" % (B, B, B)
    TS = "(timestamp if timestamp is not None else now())"
    C.fn("SwitchController.process_switch_obj",
         params=dict(obj=SWITCH, state=Union(Bool, Int), logical=Bool, timestamp=Opt(Real)),
         requires=[("switch is configured", "obj.hw_switch is not None"),
                   ("switch state is 0/1", "obj.state == 0 or obj.state == 1"),
                   ("invert is 0/1", "obj.invert == 0 or obj.invert == 1")],
         loops={0: LoopSpec(invariant=[])}, loops_by_text={"self.monitors": LoopSpec(invariant=[])},
         ensures=[
             ("logical state = reported state (NC switches inverted for raw reports)",
              "obj.state == %s" % NEW),
             ("duplicate report: nothing changes and nothing is invoked",
              "implies(old(obj.state) == %s, obj.hw_state == old(obj.hw_state) and obj.last_change == "
              "old(obj.last_change) and n_ev('cancel_timed') == 0 and n_ev('call_handlers') == 0 and "
              "n_callbacks() == 0)" % NEW),
             ("real change: hardware state mirrors the report and the change is time-stamped",
              "implies(old(obj.state) != %s, obj.hw_state == %s and obj.last_change == %s)" % (NEW, HW, TS)),
             ("real change: timed handlers of the old state are cancelled, then the handlers of the new state are "
              "dispatched exactly once (unless muted / not initialised)",
              "implies(old(obj.state) != %s, n_ev('cancel_timed') == 1 and order_ok() and "
              "n_ev('call_handlers') == (1 if (self._initialized and not obj.is_muted) else 0))" % NEW),
         ],
         modifies=["obj.state", "obj.hw_state", "obj.last_change"], raises={})

    for nm, st in (("is_active", "1"), ("is_inactive", "0")):
        C.fn("SwitchController." + nm, params=dict(switch=SWITCH, ms=Opt(Num)), result=Bool,
             ensures=[("true iff in that state for at least ms",
                       "result == (switch.state == %s and (not ms or ms <= round((now() - switch.last_change) * 1000.0, 0)))" % st)],
             modifies=[], raises={"AssertionError": "not self._initialized"})
    C.fn("SwitchController.is_state", params=dict(switch=SWITCH, state=Union(Bool, Int), ms=Opt(Num)), result=Bool,
         ensures=[("true iff in that state for at least ms",
                   "result == (switch.state == state and (not ms or ms <= round((now() - switch.last_change) * 1000.0, 0)))")],
         modifies=[], raises={"AssertionError": "not self._initialized"})

    # ------------------------------------------------------------------ add_switch_handler_obj
    def appended(I, ms):
        """exactly one new, not cancelled entry with this ms was appended to the handler list of (switch, state)"""
        new = [o for (o, f) in I.heap.data.keys() if isinstance(o, Obj) and o.cls == "RegisteredSwitch"
               and getattr(o, "fresh", False) and f == "ms"]
        if len(new) != 1:
            return VBool(False)
        o = new[0]
        ok = z3.And(I.eq(I.heap.data[(o, "ms")], ms), z3.Not(I.truth(I.heap.data[(o, "cancelled")])))
        # the list that changed is old ++ [o]
        changed = [k for k in I.modified if isinstance(k[0], Ref) and k[1] == "$" and
                   isinstance(I.heap.data.get(k), LSeq)]
        if len(changed) != 1:
            return VBool(False)
        k = changed[0]
        oldc = I.old_heap.data[k]
        return VBool(z3.And(ok, I.heap.data[k].term == z3.Concat(oldc.term, z3.Unit(V.obj_term(o)))))
    C.helpers["appended"] = appended

    def key_names_registered(I, result):
        """the callback in the returned key IS the callback of the entry just registered (the partial wrapper when
        switch info / kwargs are bound)"""
        new = [o for (o, f) in I.heap.data.keys() if isinstance(o, Obj) and o.cls == "RegisteredSwitch"
               and getattr(o, "fresh", False) and f == "callback"]
        if len(new) != 1:
            return VBool(False)
        return VBool(I.eq(I.force(result).items[1], I.heap.data[(new[0], "callback")]))
    C.helpers["key_names_registered"] = key_names_registered

    DEADLINE = "switch.last_change + ms / 1000.0"
    C.fn("SwitchController.add_switch_handler_obj",
         params=dict(switch=SWITCH, callback=Fn, state=Int, ms=Num, return_info=Bool, callback_kwargs=Union(NoneT, KW)),
         requires=[("state is 0/1", "state == 0 or state == 1"), ("ms >= 0", "ms >= 0")],
         ensures=[
             ("the handler is registered for (switch, state)", "appended(ms)"),
             ("returns the removal key", "result.switch_name == switch and result.state == state and result.ms == ms"),
             ("AK1: the key names the callback AS REGISTERED (the wrapper, when switch info or kwargs are bound to it): "
              "removal by key then removes this one handler - a key carrying the bare callback would match every handler "
              "built around it (e.g. the power-supply notifications of all hardware rules on one switch)",
              "key_names_registered(result)"),
             ("a timed handler added mid-interval is armed for the ORIGINAL deadline iff that is still ahead and "
              "the switch is in that state; not at all otherwise",
              "n_ev('add_timed') == (1 if (ms != 0 and state == switch.state and %s > now()) else 0)" % DEADLINE),
             ("the deadline is change time + hold time",
              "implies(n_ev('add_timed') == 1, add_timed_key() == %s and add_timed_value_ok(callback, state, ms))"
              % DEADLINE),
         ],
         modifies=["self.registered_switches.**"], raises={})

    # ------------------------------------------------------------------ Part B (bounded): removal
    N = 3
    TSH = TupleS(Fn, Int, Real, ntname="TimedSwitchHandler", fields=("callback", "state", "ms"))

    def bounded_self(I, name):
        """controller whose switch has N registered handlers per state and two pending deadlines of N timed
        handlers each; every field of every entry is symbolic"""
        o = Obj("SwitchController", ObjS("SwitchController", dict(_debug_to_console=Bool, _debug_to_file=Bool)), name)
        return VObj(o)

    def reg_bounded(I, name):
        sw = I.force(I.frames[0].env["switch"]).ref
        lists = [I.fresh(ListOf(ObjS("RegisteredSwitch", ms=Real, callback=Fn, cancelled=Bool), 2),
                         "%s[sw][%d]" % (name, st)) for st in (0, 1)]
        inner, ref = Ref(name + "[sw]"), Ref(name)
        I.init_loc((inner, "$"), LConc(lists))
        I.init_loc((ref, "$"), DConc(((sw, VList(inner)),)))
        return VDict(ref)

    def timed_bounded(I, name):
        sw = I.force(I.frames[0].env["switch"]).ref
        dl = []
        for j, key in enumerate((1.5, 2.5)):
            dl.append((key, I.fresh(ListOf(TSH, N), "%s[sw][t%d]" % (name, j))))
        inner, ref = Ref(name + "[sw]"), Ref(name)
        I.init_loc((inner, "$"), DConc(tuple(dl)))
        I.init_loc((ref, "$"), DConc(((sw, VDict(inner)),)))
        return VDict(ref)
    BSELF = ObjS("SwitchController", registered_switches=Init(reg_bounded), _active_timed_switches=Init(timed_bounded),
                 _debug_to_console=Bool, _debug_to_file=Bool)

    # a registered callback "is" the callback given to remove_*: the same object, or a functools.partial that
    # add_switch_handler_obj built around it (return_info / callback_kwargs).  SwitchController._is_callback is that
    # relation in the code; here it is an uninterpreted relation that contains equality (its real meaning is checked
    # natively: replay/demos/c03_removed_handler_with_info_still_fires.py, finite check)
    CBMATCH = z3.Function("is_callback", usort("Fn"), usort("Fn"), z3.BoolSort())

    def cbmatch(I, a, b):
        ta, tb = I.force(a).t, I.force(b).t
        return z3.Or(ta == tb, CBMATCH(ta, tb))

    def is_callback_model(I, env, a, k):
        return VBool(cbmatch(I, a[0], a[1]))
    C.finite_checks.append(common.native_demo_check(
        "c03_removed_handler_with_info_still_fires.py",
        "a handler registered with return_info / callback_kwargs / plainly is gone after remove_switch_handler_obj"))
    C.ext("SwitchController._is_callback", model=is_callback_model, pure=True,
          trusted_reason="SwitchController._is_callback(registered, callback): equality or a partial around the callback "
                         "(finite native check)")

    def _match3(I, e, callback, state, ms):
        e = I.force(e)
        return z3.And(I.eq(e.items[1], state), I.eq(e.items[2], ms), cbmatch(I, e.items[0], callback))

    def timed_lists(I, heap):
        this = I.frames[0].env["self"].ref
        sw = I.force(I.frames[0].env["switch"]).ref
        outer = heap.data[(I.force(I.read_field(this, "_active_timed_switches", heap=heap)).ref, "$")]
        inner = outer.get(sw)
        if inner is None:
            return []
        return [(k, heap.data[(I.force(v).ref, "$")].items) for k, v in heap.data[(inner.ref, "$")].entries]

    def no_timed_match_left(I, callback, state, ms):
        """no pending timed entry for (callback, state, ms) remains under any deadline"""
        cs = []
        for k, items in timed_lists(I, I.heap):
            for e in items:
                cs.append(_match3(I, e, callback, state, ms))
        return VBool(z3.Not(z3.Or(cs + [z3.BoolVal(False)])))
    C.helpers["no_timed_match_left"] = no_timed_match_left

    def other_timed_kept(I, callback, state, ms):
        """every pending timed entry that does not match is still there, in order"""
        cs = []
        new = dict(timed_lists(I, I.heap))
        for k, items in timed_lists(I, I.old_heap):
            left = list(new.get(k, ()))
            # the remaining list must be the old one filtered: check by a symbolic merge over positions
            pos = z3.IntVal(0)
            for e in items:
                m = _match3(I, e, callback, state, ms)
                # e is kept => it is at position pos of the new list
                at = z3.Or([z3.And(pos == j, I.eq(I.force(e), I.force(left[j]))) for j in range(len(left))] +
                           [z3.BoolVal(False)])
                cs.append(z3.Implies(z3.Not(m), at))
                pos = z3.If(m, pos, pos + 1)
        return VBool(z3.And(cs + [z3.BoolVal(True)]))
    C.helpers["other_timed_kept"] = other_timed_kept

    def reg_lists(I, heap):
        this = I.frames[0].env["self"].ref
        sw = I.force(I.frames[0].env["switch"]).ref
        outer = heap.data[(I.force(I.read_field(this, "registered_switches", heap=heap)).ref, "$")]
        pair = heap.data[(outer.get(sw).ref, "$")].items
        return [heap.data[(I.force(p).ref, "$")].items for p in pair]

    def no_registered_match_left(I, callback, state, ms):
        cs = []
        st = I.force(state).t
        for idx, items in enumerate(reg_lists(I, I.heap)):
            for e in items:
                o = I.force(e).ref
                cs.append(z3.And(st == idx, I.eq(I.read_field(o, "ms"), ms), cbmatch(I, I.read_field(o, "callback"), callback)))
        return VBool(z3.Not(z3.Or(cs + [z3.BoolVal(False)])))
    C.helpers["no_registered_match_left"] = no_registered_match_left

    def removed_marked_cancelled(I, callback, state, ms):
        """every entry that was registered for (callback, state, ms) is flagged cancelled, so a dispatch that
        already snapshotted the list skips it"""
        cs = []
        st = I.force(state).t
        for idx, items in enumerate(reg_lists(I, I.old_heap)):
            for e in items:
                o = I.force(e).ref
                m = z3.And(st == idx, I.eq(I.read_field(o, "ms", heap=I.old_heap), ms),
                           cbmatch(I, I.read_field(o, "callback", heap=I.old_heap), callback))
                cs.append(z3.Implies(m, I.truth(I.read_field(o, "cancelled"))))
        return VBool(z3.And(cs + [z3.BoolVal(True)]))
    C.helpers["removed_marked_cancelled"] = removed_marked_cancelled

    # ---- _call_handlers (bounded: N registered handlers per state; all fields symbolic)
    def reg_bounded_n(I, name):
        sw = I.force(I.frames[0].env["switch"]).ref
        lists = [I.fresh(ListOf(ObjS("RegisteredSwitch", ms=Real, callback=Fn, cancelled=Bool), N),
                         "%s[sw][%d]" % (name, st)) for st in (0, 1)]
        inner, ref = Ref(name + "[sw]"), Ref(name)
        I.init_loc((inner, "$"), LConc(lists))
        I.init_loc((ref, "$"), DConc(((sw, VList(inner)),)))
        return VDict(ref)
    CSELF = ObjS("SwitchController", registered_switches=Init(reg_bounded_n), _debug_to_console=Bool,
                 _debug_to_file=Bool)

    def entries_of(I, heap, state_idx):
        return reg_lists(I, heap)[state_idx]

    def on_opaque_call(I, fn, args, kwargs):
        """rely: a switch handler may remove handlers (public API): `cancelled` flags can only go from False to
        True; the flags seen by the rest of the dispatch are snapshotted into the trace event"""
        fc0 = I.frames[0].fc
        if fc0 is None or fc0.key != "SwitchController._call_handlers":
            return None
        snap = {}
        for lst in reg_lists(I, I.heap):
            for e in lst:
                o = I.force(e).ref
                was = I.truth(I.read_field(o, "cancelled"))
                I.havoc_field(o, "cancelled")
                now_ = I.truth(I.read_field(o, "cancelled"))
                I.ctx.assume(z3.Implies(was, now_))
                snap[o] = now_
        I.trace[-1].args["cancelled_after"] = snap
        return None
    C.helpers["on_opaque_call"] = on_opaque_call

    def dispatch_ok(I, state):
        """walk the handlers registered at entry, in order: each one that is not cancelled when its turn comes
        produces exactly one effect (an untimed handler is called, a timed one is armed for change time + hold
        time); a handler cancelled by then produces none; nothing else happens"""
        st = I.pyconst(I.force(state))
        if st is MISSING:
            return VBool(False)
        sw = I.force(I.frames[0].env["switch"]).ref
        ents = [I.force(e).ref for e in entries_of(I, I.old_heap, st)]
        cur = {o: I.truth(I.read_field(o, "cancelled", heap=I.old_heap)) for o in ents}
        E = [e for e in I.cur_trace() if e.name in ("callback", "add_timed")]
        p = 0
        cs = []
        last_change = I.force(I.read_field(sw, "last_change", heap=I.old_heap)).t
        for o in ents:
            ms = I.force(I.read_field(o, "ms", heap=I.old_heap)).t
            cbt = to_term(I.force(I.read_field(o, "callback", heap=I.old_heap)), Fn)
            mine = False
            if p < len(E):
                ev = E[p]
                if ev.name == "callback":
                    mine = I.force(ev.args["fn"]).t.eq(cbt)
                else:
                    h = I.force(ev.args["handler"])
                    mine = I.force(h.items[0]).t.eq(cbt)
            if mine:
                ev = E[p]
                cs.append(z3.Not(cur[o]))
                if ev.name == "callback":
                    cs.append(ms == 0)
                    cur.update(ev.args.get("cancelled_after", {}))
                else:
                    cs.append(ms != 0)
                    cs.append(I.force(ev.args["time"]).t == last_change + ms / 1000)
                p += 1
            else:
                cs.append(cur[o])
        cs.append(z3.BoolVal(p == len(E)))
        return VBool(z3.And(cs))
    C.helpers["dispatch_ok"] = dispatch_ok

    C.fn("SwitchController._call_handlers", params=dict(self=CSELF, switch=SWITCH, state=Int),
         requires=[("state is 0/1", "state == 0 or state == 1")],
         lets={},
         ensures=[("every handler registered for the new state and not removed before its turn takes effect exactly "
                   "once, in order; a removed handler never does",
                   "implies(state == 0, dispatch_ok(0)) and implies(state == 1, dispatch_ok(1))")],
         modifies=["self.registered_switches.**"], raises={}, call_ensures=[], call_modifies=[],
         bounded="3 registered handlers per state; ms/callback/cancelled of every entry symbolic; handlers may "
                 "cancel other handlers at every callback")
    # the part-A contract of _call_handlers used at call sites stays an assumed one: replace it by a marker emitter
    C.fns["SwitchController._call_handlers"].emits = marker("call_handlers", "switch", "state")

    C.fn("SwitchController.remove_switch_handler_obj",
         params=dict(self=BSELF, switch=SWITCH, callback=Fn, state=Int, ms=Real),
         requires=[("state is 0/1", "state == 0 or state == 1")],
         ensures=[
             ("a removed handler is no longer registered", "no_registered_match_left(callback, state, ms)"),
             ("and is flagged cancelled for dispatches in progress", "removed_marked_cancelled(callback, state, ms)"),
             ("a removed handler never fires: no pending timed entry of it remains under any deadline",
              "no_timed_match_left(callback, state, ms)"),
             ("other pending timed entries are untouched", "other_timed_kept(callback, state, ms)"),
         ],
         modifies=["self.registered_switches.**", "self._active_timed_switches.**"], raises={},
         bounded="2 registered handlers per state, two deadlines with 3 timed entries each; entry fields symbolic")
    C.bounded = ["SwitchController.remove_switch_handler_obj: 2 registered handlers per state and two deadlines with "
                 "%d timed entries each; all entry fields symbolic (list lengths are the bound)" % N]

    # ------------------------------------------------------------------ Part C (bounded): the timer of pending hold-times
    NT = common.bound(3, 4)
    C.cls("Loop", fields={})

    def call_at(I, env, a, k):
        I.ctx.fresh_n += 1
        h = VOpaque("TimerHandle", z3.Const("timer!%d" % I.ctx.fresh_n, usort("TimerHandle")))
        emit(I, "call_at", when=a[0], callback=a[1], handle=h)
        return h
    C.ext("Loop.call_at", model=call_at, trusted_reason="asyncio loop (A-ASYNCIO): fires once, not before its time")
    C.ext("ClockBase.unschedule", model=lambda I, env, a, k: (emit(I, "unschedule", handle=a[0]), NONE)[1],
          trusted_reason="cancels a timer handle")
    C.classes["ClockBase"].fields["loop"] = ObjS("Loop")
    C.cls("EventMgr", fields={})
    C.ext("EventMgr.process_event_queue", model=lambda I, env, a, k: (emit(I, "drain"), NONE)[1],
          trusted_reason="event queue drain (C01)")
    C.globals["partial"] = VFn("builtin", name="partial")

    def deadlines(I, name):
        """pending hold-time deadlines of the switch: 1..NT distinct times IN ANY ORDER, one handler each"""
        sw = I.force(I.frames[0].env["switch"]).ref
        n = 1 + I.ctx.fork(NT)
        ents = []
        for j in range(n):
            t = VReal(z3.Real("%s.deadline%d" % (name, j)))
            ents.append((t, I.new_list([VTuple([VOpaque("Fn", z3.Const("%s.cb%d" % (name, j), usort("Fn"))),
                                                I.fresh(Int, "%s.state%d" % (name, j)),
                                                I.fresh(Real, "%s.ms%d" % (name, j))], ntname="TimedSwitchHandler",
                                               fields=("callback", "state", "ms"))], "%s[t%d]" % (name, j))))
        for i_ in range(n):
            I.ctx.assume(ents[i_][0].t > 0)         # loop-clock times are positive
            for j_ in range(i_ + 1, n):
                I.ctx.assume(ents[i_][0].t != ents[j_][0].t)
        inner = I.new_dict(ents, name + "[sw]")
        return I.new_dict([(VObj(sw), inner)], name)

    def delay_entry(I, name):
        sw = I.force(I.frames[0].env["switch"]).ref
        return I.new_dict([(VObj(sw), VTuple([VOpaque("TimerHandle", z3.Const("old_timer", usort("TimerHandle"))),
                                             VReal(z3.Real("old_timer_time"))]))], name)
    TSELF = ObjS("SwitchController", _active_timed_switches=Init(deadlines), _timed_switch_handler_delay=Init(delay_entry),
                 _debug_to_console=Bool, _debug_to_file=Bool,
                 machine=ObjS("MachineController", clock=ObjS("ClockBase", now=Real, loop=ObjS("Loop")),
                              events=ObjS("EventMgr")))

    def due_called_rest_kept(I):
        """every handler whose deadline has passed is called exactly once (and its deadline removed); every other
        deadline is kept with its handlers"""
        this = I.frames[0].env["self"].ref
        sw = I.force(I.frames[0].env["switch"]).ref
        now = I.force(I.read_field(I.force(I.read_field(I.force(I.read_field(this, "machine")).ref, "clock")).ref, "now")).t
        old_outer = I.old_heap.data[(I.force(I.read_field(this, "_active_timed_switches", heap=I.old_heap)).ref, "$")]
        old_inner = I.old_heap.data[(I.force(old_outer.get(VObj(sw))).ref, "$")].entries
        new_outer = I.container(I.force(I.read_field(this, "_active_timed_switches")).ref)
        new_inner = I.container(I.force(new_outer.get(VObj(sw))).ref)
        calls = [e for e in I.cur_trace() if e.name == "callback"]
        conj = []
        for t, lst in old_inner:
            cb = I.force(I.old_heap.data[(I.force(lst).ref, "$")].items[0]).items[0]
            n_calls = len([e for e in calls if I.force(e.args["fn"]).t.eq(I.force(cb).t)])
            kept = new_inner.get(t) is not None
            due = t.t <= now
            conj.append(z3.If(due, z3.BoolVal(n_calls == 1 and not kept), z3.BoolVal(n_calls == 0 and kept)))
        return VBool(z3.And(*conj))
    C.helpers["due_called_rest_kept"] = due_called_rest_kept

    def rearmed_at_earliest(I):
        """exactly one timer is set iff a deadline remains, for the EARLIEST remaining deadline, and remembered"""
        this = I.frames[0].env["self"].ref
        sw = I.force(I.frames[0].env["switch"]).ref
        new_outer = I.container(I.force(I.read_field(this, "_active_timed_switches")).ref)
        rest = [t for t, _ in I.container(I.force(new_outer.get(VObj(sw))).ref).entries]
        evs = [e for e in I.cur_trace() if e.name == "call_at"]
        dl = I.container(I.force(I.read_field(this, "_timed_switch_handler_delay")).ref).get(VObj(sw))
        if not rest:
            return VBool(len(evs) == 0 and dl is None)
        if len(evs) != 1 or dl is None:
            return VBool(False)
        when = I.force(evs[0].args["when"])
        cb = I.force(evs[0].args["callback"])
        ok = cb.tag == "fn" and cb.kind == "partial" and I.force(cb.fn).name == "_process_active_timed_switches"
        rem = I.force(dl)
        return VBool(z3.And(z3.BoolVal(ok), *[when.t <= t.t for t in rest],
                            z3.Or(*[when.t == t.t for t in rest]), I.eq(rem.items[1], when),
                            I.eq(rem.items[0], evs[0].args["handle"])))
    C.helpers["rearmed_at_earliest"] = rearmed_at_earliest
    C.helpers["n_drains"] = lambda I: VInt(len([e for e in I.cur_trace() if e.name == "drain"]))
    C.trace_helpers |= {"due_called_rest_kept", "rearmed_at_earliest", "n_drains"}
    C.helpers["on_opaque_call"] = C.helpers.get("on_opaque_call") or (lambda I, fn, a, k: NONE)
    C.fn("SwitchController._process_active_timed_switches", params=dict(self=TSELF, switch=SWITCH),
         loops={0: LoopSpec(invariant=[], unroll=True), 1: LoopSpec(invariant=[], unroll=True)},
         ensures=[("H1: when the timer fires every hold-time handler whose deadline has passed takes effect exactly "
                   "once and is forgotten; the others stay pending", "due_called_rest_kept()"),
                  ("H2: the timer is set again for the EARLIEST remaining deadline (whatever order the deadlines were "
                   "registered in), so no handler fires late; none if nothing remains", "rearmed_at_earliest()"),
                  ("the event queue is drained once, after the handlers", "n_drains() == 1")],
         modifies=["self._active_timed_switches.**", "self._timed_switch_handler_delay",
                   "self._timed_switch_handler_delay.**"], raises={},
         bounded="BOUNDED: 1..%d pending deadlines (distinct, in any order), one handler each" % NT)
    C.assume("A-ASYNCIO: clock.get_time() is the loop time; call_at fires once, not before its time")
    C.assume("A-FLOAT: times as reals")
    C.assume("switch objects have state/invert in {0,1} (set by the switch device and platform)")
    return C


def reentrant_timed_set():
    """a hold-time handler may itself register a hold-time handler for the same switch (handler registration times are
    arbitrary - also 'while the due handlers are being called'): afterwards exactly ONE wake-up is armed and recorded for the
    switch, at the earliest pending deadline; a wake-up armed by the callback on the way is not left behind un-recorded (it
    would fire on a missing record: KeyError, the machine stops)"""
    C = ContractSet("C03r", "hold-time handlers that register hold-time handlers")
    C.strings = False
    C.cls("MpfController", fields={})
    C.cls("Loop", fields={})

    def call_at(I, env, a, k):
        h = VOpaque("TimerHandle", z3.Const(I.fresh_name("timer"), usort("TimerHandle")))
        emit(I, "call_at", when=a[0], callback=a[1], handle=h)
        return h
    C.ext("Loop.call_at", model=call_at, trusted_reason="asyncio loop.call_at (A-ASYNCIO): fires once, not before its time")
    C.cls("ClockBase", fields=dict(now=Real, loop=ObjS("Loop")))
    C.ext("ClockBase.get_time", model=lambda I, env, a, k: I.read_field(env["self"].ref, "now"), trusted_reason="loop clock")
    C.ext("ClockBase.unschedule", model=lambda I, env, a, k: (emit(I, "unschedule", handle=a[0]), NONE)[1],
          trusted_reason="cancels a timer handle")
    C.cls("EventMgr", fields={})
    C.ext("EventMgr.process_event_queue", model=lambda I, env, a, k: (emit(I, "drain"), NONE)[1],
          trusted_reason="event queue drain (C01)")
    C.globals["partial"] = VFn("builtin", name="partial")
    C.cls("SwitchI", fields=dict(name=Str))

    def deadlines(I, name):
        """one deadline is due (its handler will register another hold-time handler), 0..1 further deadlines pending"""
        sw = I.force(I.frames[0].env["switch"]).ref
        ents = []
        for j in range(1 + I.ctx.fork(2)):
            t = VReal(z3.Real("%s.deadline%d" % (name, j)))
            ents.append((t, I.new_list([VTuple([VOpaque("Fn", z3.Const("%s.cb%d" % (name, j), usort("Fn"))),
                                                VInt(1), VReal(z3.Real("%s.ms%d" % (name, j)))],
                                               ntname="TimedSwitchHandler", fields=("callback", "state", "ms"))],
                                   "%s[t%d]" % (name, j))))
        this = I.frames[0].env["self"].ref
        now = I.force(I.read_field(I.force(I.read_field(I.force(I.read_field(this, "machine")).ref, "clock")).ref, "now")).t
        I.ctx.assume(z3.And(ents[0][0].t > 0, ents[0][0].t <= now))
        if len(ents) > 1:
            I.ctx.assume(z3.And(ents[1][0].t > now, ents[1][0].t != ents[0][0].t))
        I.__dict__["c03_due_cb"] = I.force(I.container(I.force(ents[0][1]).ref).items[0]).items[0]
        return I.new_dict([(VObj(sw), I.new_dict(ents, name + "[sw]"))], name)

    def delay_entry(I, name):
        sw = I.force(I.frames[0].env["switch"]).ref
        return I.new_dict([(VObj(sw), VTuple([VOpaque("TimerHandle", z3.Const("fired_timer", usort("TimerHandle"))),
                                             VReal(z3.Real("fired_timer_time"))]))], name)
    C.cls("SwitchController", file="mpf/core/switch_controller.py", bases=["MpfController"], check_bases=False,
          fields=dict(_active_timed_switches=Init(deadlines), _timed_switch_handler_delay=Init(delay_entry),
                      _debug_to_console=Bool, _debug_to_file=Bool,
                      machine=ObjS("MachineController", clock=ObjS("ClockBase"), events=ObjS("EventMgr"))))

    def on_call(I, fn, a, k):
        """the due handler registers one more hold-time handler for the same switch, with a deadline that is still ahead
        (add_switch_handler_obj -> _add_timed_switch_handler, the real function)"""
        emit(I, "callback", fn=fn)
        due = I.__dict__.get("c03_due_cb")
        if due is None or not I.force(fn).t.eq(I.force(due).t) or I.__dict__.get("c03_reentered"):
            return NONE
        I.__dict__["c03_reentered"] = True
        this = I.frames[0].env["self"]
        sw = I.frames[0].env["switch"]
        now = I.force(I.read_field(I.force(I.read_field(I.force(I.read_field(this.ref, "machine")).ref, "clock")).ref, "now")).t
        t_new = z3.Real("new_deadline")
        I.ctx.assume(t_new > now)
        h = VTuple([VOpaque("Fn", z3.Const("new_cb", usort("Fn"))), VInt(1), VReal(z3.Real("new_ms"))],
                   ntname="TimedSwitchHandler", fields=("callback", "state", "ms"))
        I.call(I.getattr(this, "_add_timed_switch_handler", None), [sw, VReal(t_new), h], {})
        return NONE
    C.helpers["on_opaque_call"] = on_call

    def one_live_wakeup(I):
        this = I.frames[0].env["self"].ref
        sw = I.force(I.frames[0].env["switch"]).ref
        outer = I.container(I.force(I.read_field(this, "_active_timed_switches")).ref)
        inner_v = outer.get(VObj(sw))
        rest = [t for t, _ in I.container(I.force(inner_v).ref).entries] if inner_v is not None else []
        armed = [e for e in I.cur_trace() if e.name == "call_at"]
        cancelled = [I.force(e.args["handle"]).t for e in I.cur_trace() if e.name == "unschedule"]
        live = [e for e in armed if not any(I.force(e.args["handle"]).t.eq(c) for c in cancelled)]
        dl = I.container(I.force(I.read_field(this, "_timed_switch_handler_delay")).ref).get(VObj(sw))
        if not rest:
            return VBool(not live and dl is None)
        if len(live) != 1 or dl is None:
            return VBool(False)
        rem = I.force(dl)
        when = I.force(live[0].args["when"])
        # not later than the earliest pending deadline (a wake-up that comes early finds nothing due and re-arms itself)
        return VBool(z3.And(I.eq(rem.items[0], live[0].args["handle"]), I.eq(rem.items[1], when),
                            *[when.t <= t.t for t in rest]))
    C.helpers["one_live_wakeup"] = one_live_wakeup
    C.finite_checks.append(common.native_demo_check(
        "c03_timed_handler_registers_timed_handler.py",
        "a hold-time handler that registers another hold-time handler: each fires once at its time, nothing crashes later"))
    C.trace_helpers = {"one_live_wakeup"}
    C.fn("SwitchController._process_active_timed_switches", params=dict(switch=ObjS("SwitchI")),
         loops={0: LoopSpec(invariant=[], unroll=True), 1: LoopSpec(invariant=[], unroll=True)},
         ensures=[("H3: also when a due handler registers another hold-time handler for the same switch: afterwards exactly "
                   "ONE wake-up is live for the switch, it is the recorded one, and it comes no later than the earliest "
                   "pending deadline - no wake-up armed on the way is left un-recorded", "one_live_wakeup()")],
         modifies=["self._active_timed_switches.**", "self._timed_switch_handler_delay",
                   "self._timed_switch_handler_delay.**"], raises={},
         bounded="BOUNDED: one due deadline whose handler registers one further deadline; 0..1 other pending deadlines")
    return C


def timed_add_set(pid="C03t"):
    """SwitchController._add_timed_switch_handler: the hold-time bookkeeping when a handler's deadline is recorded.
    Whatever deadlines are already pending, afterwards ONE wake-up is armed, for the earliest pending deadline, and
    nothing runs synchronously (no handler call, no event-queue drain: the function is reached from inside event
    handlers)."""
    C = ContractSet(pid, "hold-time deadlines: one wake-up at the earliest deadline, nothing synchronous")
    C.strings = False
    NT2 = common.bound(2, 3)
    C.cls("MpfController", fields={})
    C.cls("Loop", fields={})

    def call_at(I, env, a, k):
        h = VOpaque("TimerHandle", z3.Const(I.fresh_name("timer"), usort("TimerHandle")))
        emit(I, "call_at", when=a[0], callback=a[1], handle=h)
        return h
    C.ext("Loop.call_at", model=call_at, trusted_reason="asyncio loop.call_at (A-ASYNCIO): fires once, not before its time")
    C.cls("ClockBase", fields=dict(now=Real, loop=ObjS("Loop")))
    C.ext("ClockBase.get_time", model=lambda I, env, a, k: I.read_field(env["self"].ref, "now"), trusted_reason="loop clock")
    C.ext("ClockBase.unschedule", model=lambda I, env, a, k: (emit(I, "unschedule", handle=a[0]), NONE)[1],
          trusted_reason="cancels a timer handle")
    C.globals["partial"] = VFn("builtin", name="partial")
    C.cls("SwitchI", fields={})
    SW = ObjS("SwitchI")
    HANDLER = TupleS(Fn, Int, Real, ntname="TimedSwitchHandler", fields=("callback", "state", "ms"))

    def pending(I, name):
        """deadlines already pending for the switch (0..NT2, distinct, in any order) - with the wake-up that the
        bookkeeping invariant demands: armed iff something is pending, for the earliest deadline"""
        sw = I.force(I.frames[0].env["switch"]).ref
        n = I.ctx.fork(NT2 + 1)
        ents = []
        for j in range(n):
            t = VReal(z3.Real("%s.deadline%d" % (name, j)))
            ents.append((t, I.new_list([I.fresh(HANDLER, "%s.h%d" % (name, j))], "%s[t%d]" % (name, j))))
        for i_ in range(n):
            I.ctx.assume(ents[i_][0].t > 0)
            for j_ in range(i_ + 1, n):
                I.ctx.assume(ents[i_][0].t != ents[j_][0].t)
        I.__dict__["c03_pending"] = ents
        if not ents:
            return I.new_dict([], name)
        return I.new_dict([(VObj(sw), I.new_dict(ents, name + "[sw]"))], name)

    def wakeup(I, name):
        this = I.frames[0].env["self"].ref
        I.force(I.read_field(this, "_active_timed_switches"))
        ents = I.__dict__["c03_pending"]
        sw = I.force(I.frames[0].env["switch"]).ref
        if not ents:
            return I.new_dict([], name)
        when = z3.Real("old_wakeup_time")
        I.ctx.assume(z3.And([when <= t.t for t, _ in ents] + [z3.Or([when == t.t for t, _ in ents])]))
        h = VOpaque("TimerHandle", z3.Const("old_timer", usort("TimerHandle")))
        I.__dict__["c03_old_handle"] = h
        return I.new_dict([(VObj(sw), VTuple([h, VReal(when)]))], name)
    C.cls("SwitchController", file="mpf/core/switch_controller.py", bases=["MpfController"], check_bases=False,
          fields=dict(_active_timed_switches=Init(pending), _timed_switch_handler_delay=Init(wakeup),
                      machine=ObjS("MachineController", clock=ObjS("ClockBase"))))

    def proc(I, env, a, k):
        emit(I, "process_now", switch=a[0])
        return NONE
    C.ext("SwitchController._process_active_timed_switches", model=proc,
          trusted_reason="Part C (verified in the main set): calls the due handlers and DRAINS the event queue - it must "
                         "only ever run from the loop, never synchronously from here")

    def recorded(I, switch, time, handler):
        """the handler is the last entry under its deadline; every other pending entry is unchanged"""
        this = I.frames[0].env["self"].ref
        sw = I.force(switch).ref
        outer = I.container(I.force(I.read_field(this, "_active_timed_switches")).ref)
        inner_v = outer.get(VObj(sw))
        if inner_v is None:
            return VBool(False)
        inner = I.container(I.force(inner_v).ref).entries
        old = I.__dict__.get("c03_pending", [])
        tt = I.force(time).t
        hv = I.force(handler)
        cases = []
        # case: time equals old deadline j -> appended there; else new key
        for j, (t, lst) in enumerate(old):
            ok = len(inner) == len(old)
            if ok:
                conj = [tt == t.t]
                for (t2, lst2), (t0, lst0) in zip(inner, old):
                    items2 = I.container(I.force(lst2).ref).items
                    items0 = I.container(I.force(lst0).ref, heap=I.old_heap).items
                    if t0 is t:
                        ok = ok and len(items2) == len(items0) + 1
                        if ok:
                            conj.append(I.eq(items2[-1], hv))
                    else:
                        ok = ok and len(items2) == len(items0)
                cases.append(z3.And(conj) if ok else z3.BoolVal(False))
        new_ok = len(inner) == len(old) + 1
        if new_ok:
            conj = [tt != t.t for t, _ in old]
            found = False
            for t2, lst2 in inner:
                items2 = I.container(I.force(lst2).ref).items
                if not any(t2 is t0 for t0, _ in old):
                    found = len(items2) == 1
                    if found:
                        conj += [I.force(t2).t == tt, I.eq(items2[0], hv)]
            cases.append(z3.And(conj) if found else z3.BoolVal(False))
        return VBool(z3.Or(cases + [z3.BoolVal(False)]))
    C.helpers["deadline_recorded"] = recorded

    def one_wakeup_at_earliest(I, switch, time):
        """afterwards the remembered wake-up time is the EARLIEST pending deadline (old ones and the new one); if it had
        to move, the old timer is cancelled and exactly one new timer is set for that time, calling
        _process_active_timed_switches(switch); otherwise no timer is touched"""
        this = I.frames[0].env["self"].ref
        sw = I.force(switch).ref
        old = I.__dict__.get("c03_pending", [])
        tt = I.force(time).t
        dl = I.container(I.force(I.read_field(this, "_timed_switch_handler_delay")).ref).get(VObj(sw))
        if dl is None:
            return VBool(False)
        rem = I.force(dl)
        earliest_ok = z3.And([rem.items[1].t <= t.t for t, _ in old] + [rem.items[1].t <= tt] +
                             [z3.Or([rem.items[1].t == t.t for t, _ in old] + [rem.items[1].t == tt])])
        evs = events_named(I, "call_at")
        uns = events_named(I, "unschedule")
        if len(evs) > 1 or len(uns) > 1:
            return VBool(False)
        if evs:
            cb = I.force(evs[0].args["callback"])
            ok = cb.tag == "fn" and cb.kind == "partial" and I.force(cb.fn).name == "_process_active_timed_switches" \
                and len(cb.args) == 1 and I.force(cb.args[0]).ref is sw
            armed = z3.And(z3.BoolVal(bool(ok)), I.eq(evs[0].args["when"], rem.items[1]),
                           I.eq(rem.items[0], evs[0].args["handle"]))
            oldh = I.__dict__.get("c03_old_handle")
            if old:
                armed = z3.And(armed, z3.BoolVal(len(uns) == 1 and I.force(uns[0].args["handle"]).t.eq(oldh.t)))
            else:
                armed = z3.And(armed, z3.BoolVal(len(uns) == 0))
            return VBool(z3.And(earliest_ok, armed))
        return VBool(z3.And(earliest_ok, z3.BoolVal(len(uns) == 0)))
    C.helpers["one_wakeup_at_earliest"] = one_wakeup_at_earliest
    C.helpers["n_sync"] = lambda I: VInt(len([e for e in I.cur_trace() if e.name in ("process_now", "callback", "drain")]))
    C.trace_helpers = {"one_wakeup_at_earliest", "n_sync"}
    C.helpers["on_opaque_call"] = lambda I, fn, a, k: NONE
    C.fn("SwitchController._add_timed_switch_handler", params=dict(switch=SW, time=Real, timed_switch_handler=HANDLER),
         requires=[("loop-clock times are positive", "time > 0")],
         ensures=[("AT1: the handler is recorded under its deadline (after earlier ones for the same deadline); every other "
                   "pending entry is untouched", "deadline_recorded(switch, time, timed_switch_handler)"),
                  ("AT2: one wake-up is armed, for the EARLIEST pending deadline - also when a wake-up for a later deadline "
                   "was already pending (so no hold-time handler fires late)", "one_wakeup_at_earliest(switch, time)"),
                  ("AT3: nothing runs synchronously: no handler is called and the event queue is not drained here (the "
                   "function is reached from inside event handlers; due handlers run from the loop)", "n_sync() == 0")],
         modifies=["self._active_timed_switches", "self._active_timed_switches.**", "self._timed_switch_handler_delay",
                   "self._timed_switch_handler_delay.**"], raises={}, skip_frame=True,
         bounded="BOUNDED: 0..%d deadlines already pending (distinct, any order)" % NT2)
    return C


SWDEV = "mpf/devices/switch.py"


def switch_events_set():
    """Switch device: the switch's configured events are posted once per real change of its LOGICAL state; with an
    ignore window (ignore_window_ms) the first change posts at once and one catch-up post is made when the window ends
    iff the logical state then differs from the one the window was opened with"""
    C = ContractSet("C03e", "switch events follow the logical state")
    C.strings = False
    C.cls("SystemWideDevice", fields={})
    C.cls("DevicePositionMixin", fields={})
    C.cls("EventManager", fields={})

    def exists(I, env, a, k):
        r = VBool(z3.Bool(I.fresh_name("event_exists")))
        emit(I, "exists?", event=a[0], result=r)
        return r
    C.ext("EventManager.does_event_exist", model=exists, trusted_reason="EventManager.does_event_exist (C01): handlers "
                                                                        "registered for the name")
    C.ext("EventManager.post", model=lambda I, env, a, k: (emit(I, "post", event=a[0]), NONE)[1],
          trusted_reason="event posting (C01)")
    C.cls("Loop", fields={})
    C.ext("Loop.call_at", model=lambda I, env, a, k: (emit(I, "call_at", when=a[0], callback=a[1]), NONE)[1],
          trusted_reason="asyncio loop.call_at (A-ASYNCIO)")
    C.globals["partial"] = VFn("builtin", name="partial")

    def events_to_post(I, name):
        def lst(st):
            return I.new_list([VStr(z3.String("%s[%d][%d]" % (name, st, i))) for i in range(I.ctx.fork(3))],
                              "%s[%d]" % (name, st))
        return I.new_dict(((0, lst(0)), (1, lst(1))), name)
    C.cls("Switch", file=SWDEV, bases=["SystemWideDevice", "DevicePositionMixin"], fields=dict(
        state=Int, hw_state=Int, invert=Int, last_change=Real, recycle_secs=Real, recycle_clear_time=Opt(Real),
        _events_to_post=Init(events_to_post), _debug=Bool,
        machine=ObjS("MachineController", events=ObjS("EventManager"), clock=ObjS("ClockI", loop=ObjS("Loop")))),
        invariants=[("states are 0/1", "(self.state == 0 or self.state == 1) and (self.hw_state == 0 or "
                                       "self.hw_state == 1)")])

    def posted_for(I, state):
        """exactly the configured events of `state` that have a handler (or all of them with debug) are posted, once
        each, in order"""
        this = I.frames[0].env["self"].ref
        sv = z3.simplify(I.force(state).t)
        if not z3.is_int_value(sv):
            return VBool(z3.If(sv == 0, posted_for(I, VInt(0)).t, z3.And(sv == 1, posted_for(I, VInt(1)).t)))
        evs = I.container(I.force(I.container(I.force(I.read_field(this, "_events_to_post")).ref).get(sv.as_long())).ref).items
        dbg = I.truth(I.read_field(this, "_debug"))
        posts = [e for e in I.cur_trace() if e.name == "post"]
        ex = {str(I.force(e.args["event"]).t): I.force(e.args["result"]).t for e in I.cur_trace() if e.name == "exists?"}
        want = []
        conj = []
        # walk the configured events; each is posted iff debug or it exists (decision recorded in the trace)
        pi = 0
        for ev in evs:
            name_t = I.force(ev).t
            dec = ex.get(str(name_t))
            should = z3.Or(dbg, dec) if dec is not None else dbg
            is_posted = pi < len(posts) and I.force(posts[pi].args["event"]).t.eq(name_t)
            if is_posted:
                conj.append(should)
                pi += 1
            else:
                conj.append(z3.Not(should))
        if pi != len(posts):
            return VBool(False)
        return VBool(z3.And(conj + [z3.BoolVal(True)]))
    C.helpers["posted_for"] = posted_for
    C.helpers["n_posts"] = lambda I: VInt(len([e for e in I.cur_trace() if e.name == "post"]))
    C.helpers["n_timers"] = lambda I: VInt(len([e for e in I.cur_trace() if e.name == "call_at"]))

    def window_timer(I, state):
        evs = [e for e in I.cur_trace() if e.name == "call_at"]
        if len(evs) != 1:
            return VBool(False)
        this = I.frames[0].env["self"].ref
        cb = I.force(evs[0].args["callback"])
        ok = cb.tag == "fn" and cb.kind == "partial" and I.force(cb.fn).name == "_recycle_passed" and len(cb.args) == 1
        if not ok:
            return VBool(False)
        return VBool(z3.And(I.eq(cb.args[0], state), I.eq(evs[0].args["when"], I.read_field(this, "recycle_clear_time"))))
    C.helpers["window_timer_for"] = window_timer
    C.trace_helpers = {"posted_for", "n_posts", "n_timers", "window_timer_for"}
    ST = Union(Const(0), Const(1))
    C.fn("Switch._post_events", params=dict(state=ST),
         loops={0: LoopSpec(invariant=[], unroll=True)},
         ensures=[("SE1: the configured events of that state are posted once each (those somebody listens to)",
                   "posted_for(state)")], modifies=[], raises={}, inline_calls=True,
         bounded="BOUNDED: at most 2 events per state")
    C.fn("Switch._post_events_with_recycle", params=dict(state=ST), requires=[("a window is configured", "self.recycle_secs > 0")],
         ensures=[("SE2: outside an ignore window a change posts its events at once and opens a window that ends "
                   "recycle_secs after the change, with ONE timer for its end that remembers the state it was opened with",
                   "implies(old(self.recycle_clear_time) is None, posted_for(state) and self.recycle_clear_time == "
                   "self.last_change + self.recycle_secs and window_timer_for(state))"),
                  ("SE3: inside a window nothing is posted and no further timer is set",
                   "implies(old(self.recycle_clear_time) is not None and old(self.recycle_clear_time) != 0, "
                   "n_posts() == 0 and n_timers() == 0 and self.recycle_clear_time == old(self.recycle_clear_time))")],
         modifies=["self.recycle_clear_time"], raises={}, inline_calls=True,
         bounded="BOUNDED: at most 2 events per state")
    C.fn("Switch._recycle_passed", params=dict(state=ST),
         ensures=[("SE4: when the window ends it is closed, and the events of the CURRENT logical state are posted iff that "
                   "state differs from the one the window was opened with (normally-open and normally-closed switches "
                   "alike: the logical state, not the raw hardware state, decides)",
                   "self.recycle_clear_time is None and (posted_for(self.state) if self.state != state else "
                   "n_posts() == 0)")],
         modifies=["self.recycle_clear_time"], raises={}, inline_calls=True,
         bounded="BOUNDED: at most 2 events per state")
    return C


def bcp_switch_set():
    """switch changes requested over BCP (media controller, switch monitor): after the request the switch's LOGICAL state
    is the requested one; -1 flips the current logical state"""
    C = ContractSet("C03b", "switch changes requested over BCP")
    C.strings = False
    C.cls("MpfController", fields={})
    C.cls("SwitchDev", fields=dict(state=Int, hw_state=Int, invert=Int))

    def switches(I, name):
        return I.new_dict((("s_known", I.fresh(ObjS("SwitchDev"), name + "[s_known]")),), name)
    C.cls("SwitchControllerI", fields={})
    C.ext("SwitchControllerI.is_active", model=lambda I, env, a, k: VBool(I.force(I.read_field(I.force(a[0]).ref,
                                                                                              "state")).t == 1),
          trusted_reason="SwitchController.is_active (main set): logical state == 1")

    def pso(I, env, a, k):
        emit(I, "process_switch_obj", obj=k.get("obj", a[0] if a else NONE), state=k.get("state"), logical=k.get("logical"))
        return NONE
    C.ext("SwitchControllerI.process_switch_obj", model=pso,
          trusted_reason="SwitchController.process_switch_obj (main set): logical state = reported state (raw reports "
                         "inverted for NC switches)")
    C.cls("BcpInterface", file="mpf/core/bcp/bcp_interface.py", bases=["MpfController"], fields=dict(
        machine=ObjS("MachineController", switches=Init(switches), switch_controller=ObjS("SwitchControllerI"))))

    def requested_state_reached(I, name, state):
        """one report that makes the switch's logical state the requested one (process_switch_obj's contract: a logical
        report sets the state as given, a raw one is inverted for NC switches)"""
        evs = events_named(I, "process_switch_obj")
        nm = I.pyconst(I.force(name))
        if nm != "s_known":
            return VBool(len(evs) == 0)
        if len(evs) != 1:
            return VBool(False)
        this = I.frames[0].env["self"].ref
        sw = I.container(I.force(I.read_field(I.force(I.read_field(this, "machine")).ref, "switches")).ref).get("s_known")
        swr = I.force(sw).ref
        e = evs[0]
        if I.force(e.args["obj"]).ref is not swr:
            return VBool(False)
        cur = I.force(I.read_field(swr, "state", heap=I.old_heap)).t
        inv = I.force(I.read_field(swr, "invert", heap=I.old_heap)).t
        st = I.force(state).t
        want = z3.If(st == -1, 1 - cur, st)
        rep = I.num(e.args["state"])[1]
        logical = I.truth(e.args["logical"])
        resulting = z3.If(logical, rep, z3.If(inv == 1, 1 - rep, rep))
        return VBool(resulting == want)
    C.helpers["requested_state_reached"] = requested_state_reached
    C.trace_helpers = {"requested_state_reached"}
    C.fn("BcpInterface._bcp_receive_switch",
         params=dict(client=Opaque("Client"), name=Union(Const("s_known"), Const("s_unknown")),
                     state=Union(Const(-1), Const(0), Const(1)), kwargs=Opaque("Kwargs")),
         requires=[("switch states are 0/1", "(self.machine.switches['s_known'].state == 0 or "
                                             "self.machine.switches['s_known'].state == 1) and "
                                             "(self.machine.switches['s_known'].invert == 0 or "
                                             "self.machine.switches['s_known'].invert == 1)")],
         ensures=[("BS1: a BCP switch request sets the LOGICAL state asked for; -1 flips the current logical state "
                   "(whatever the raw hardware state last reported was); an unknown switch name changes nothing",
                   "requested_state_reached(name, state)")],
         modifies=[], raises={})
    return C


def key_removal_set(pid="C03k"):
    """removal by key: a handler is removed with exactly the switch, callback, STATE and hold time it was registered
    with (so handlers for the inactive transition are removed too, and a removed handler never fires)"""
    C = ContractSet(pid, "switch handlers are removed by exactly their key")
    C.strings = False
    C.cls("MpfController", fields={})
    C.namedtuple("mpf/core/switch_controller.py", "SwitchHandler")
    NK = common.bound(2, 3)
    KEY = TupleS(Opaque("SwitchObj"), Fn, Int, Real, ntname="SwitchHandler", fields=("switch_name", "callback", "state", "ms"))
    C.cls("SwitchController", file="mpf/core/switch_controller.py", bases=["MpfController"], check_bases=False, fields={})

    def rm(I, env, a, k):
        args = list(a) + [None] * (4 - len(a))
        names = ["switch", "callback", "state", "ms"]
        got = {}
        for nm, v in zip(names, args):
            got[nm] = v if v is not None else k.get(nm)
        # real defaults of remove_switch_handler_obj: state=1, ms=0
        if got["state"] is None:
            got["state"] = VInt(1)
        if got["ms"] is None:
            got["ms"] = VInt(0)
        emit(I, "remove_obj", **got)
        return NONE
    C.ext("SwitchController.remove_switch_handler_obj", model=rm,
          trusted_reason="SwitchController.remove_switch_handler_obj(switch, callback, state=1, ms=0) (main set: removes "
                         "exactly the matching entries)")

    def keys(I, name):
        return I.new_list([I.fresh(KEY, "%s[%d]" % (name, i)) for i in range(I.ctx.fork(NK + 1))], name)

    def removed_exactly(I, *ks):
        evs = events_named(I, "remove_obj")
        if len(ks) == 1 and I.force(ks[0]).tag == "list":
            ks = I.container(I.force(ks[0]).ref).items
        if len(evs) != len(ks):
            return VBool(False)
        cs = []
        for e, kv in zip(evs, ks):
            kt = I.force(kv)
            cs += [I.eq(e.args["switch"], kt.items[0]), I.eq(e.args["callback"], kt.items[1]),
                   I.eq(e.args["state"], kt.items[2])]
            m1, m2 = I.num(e.args["ms"]), I.num(kt.items[3])
            cs.append((z3.ToReal(m1[1]) if m1[0] == "int" else m1[1]) == (z3.ToReal(m2[1]) if m2[0] == "int" else m2[1]))
        return VBool(z3.And(cs + [z3.BoolVal(True)]))
    C.helpers["removed_exactly"] = removed_exactly
    C.trace_helpers = {"removed_exactly"}
    C.fn("SwitchController.remove_switch_handler_by_key", params=dict(switch_handler=KEY),
         ensures=[("RK1: exactly the handler the key names is removed: same switch, callback, state and hold time",
                   "removed_exactly(switch_handler)")], modifies=[], raises={})
    C.fn("SwitchController.remove_switch_handler_by_keys", params=dict(switch_handlers=Init(keys)),
         loops={0: LoopSpec(invariant=[], unroll=True)},
         ensures=[("RK2: every key of the list is removed with its own switch, callback, STATE and hold time (handlers "
                   "registered for the inactive transition included)", "removed_exactly(switch_handlers)")],
         modifies=[], raises={}, bounded="BOUNDED: lists of at most %d keys" % NK)
    return C


def build_extra():
    return [timed_add_set(), switch_events_set(), bcp_switch_set(), key_removal_set(), reentrant_timed_set()]
